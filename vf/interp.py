"""Interpreter of program ASTs (vf/gen/prog.py) against the real public builders.

Only public builder methods are called.  The interpreter records, for every call that returns
a handle, (statement kind, handle, number of value outputs the AST dictates) — used by the
cross-cutting C16 clause — and calls `hook(hugr)` after every executed statement (quiescent
points for the invariant monitors)."""

from __future__ import annotations


class _WireMap(dict):
    """wire id -> OutPort, remembering which Hugr object the port belongs to"""

    def __init__(self, interp):
        super().__init__()
        self.interp = interp
        self.owner: dict[str, int] = {}
        # every Hugr that ever owned a wire is kept alive: a collected (standalone, already inserted) Hugr would
        # hand its id() to a later one and its wires would seem to belong to that one
        self.alive: dict[int, object] = {}

    def __setitem__(self, k, v):
        super().__setitem__(k, v)
        self.owner[k] = id(self.interp._cur)
        self.alive[id(self.interp._cur)] = self.interp._cur


_AS_WIRE: list = []


def _as_wire(port):
    if not _AS_WIRE:
        from hugr.hugr.node_port import Wire

        class WrappedWire(Wire):
            def __init__(self, p):
                self._p = p

            def out_port(self):
                return self._p

        _AS_WIRE.append(WrappedWire)
    return _AS_WIRE[0](port)


class Interp:
    def __init__(self, hook=None):
        from vf.gen.types import Builder
        from vf.gen.values import VBuilder

        self.tb = Builder()
        self.vb = VBuilder(self.tb)
        self._cur = None                      # Hugr the statements being executed belong to
        self.w = _WireMap(self)              # wire id -> OutPort
        self.nodes: dict[str, object] = {}   # statement / function id -> Node
        self.handles: list[tuple] = []       # (what, handle, expected number of outputs)
        self.loads: list[tuple] = []         # (load node, hugr, value descriptor type)
        self.const_nodes: dict[str, object] = {}  # load statement id -> Const node feeding it
        self.hook = hook
        self.calls = 0
        self.root_builder = None
        self.trace: list[str] = []
        self.share_partial = False
        self.late_args = True                 # see st_call
        self.late_linked = 0
        self.node_wires = True   # hand output 0 of a node over as the Node itself now and then
        self.arg_links = []      # (hugr, source out port, node, input position) as the statements asked
        self.static_links = []   # (hugr, function node, call node, expected static input offset)
        self._shared_ops: dict[str, object] = {}

    # ------------------------------------------------------------------ helpers
    def ty(self, d):
        return self.tb.ty(d)

    def row(self, r):
        return self.tb.row(r)

    def wires(self, ids):
        """the wires of these ids; every third wire that is output 0 of its node is handed over as the Node itself (a
        node used as a wire means its output 0)"""
        from hugr import OutPort

        out = []
        for i in ids:
            w = self.w[i]
            self._wire_uses = getattr(self, "_wire_uses", 0) + 1
            if self.node_wires and type(w) is OutPort and w.offset == 0 and self._wire_uses % 3 == 0:
                w = w.node
                self.nodes_as_wires = getattr(self, "nodes_as_wires", 0) + 1
            elif self.node_wires and type(w) is OutPort and self._wire_uses % 5 == 4:
                # something that merely implements the Wire protocol (only out_port() says what it is)
                w = _as_wire(w)
            out.append(w)
        return out

    def make_op(self, ref):
        from hugr import ops, tys
        from hugr.std.int import _DivModDef
        from hugr.std.logic import Not
        from vf import hx

        k = ref[0]
        if self.share_partial and k in ("Noop", "MakeTuple", "UnpackTuple", "CallIndirect"):
            if k not in self._shared_ops:
                self._shared_ops[k] = getattr(ops, k)()
            return self._shared_ops[k]
        if k == "Noop":
            return ops.Noop()
        if k == "MakeTuple":
            return ops.MakeTuple()
        if k == "UnpackTuple":
            return ops.UnpackTuple()
        if k == "Tag":
            return ops.Tag(ref[1], tys.Sum([self.row(r) for r in ref[2]]))
        if k == "Some":
            return ops.Some(*self.row(ref[1]))
        if k in ("Left", "Right", "Continue", "Break"):
            return getattr(ops, k)(tys.Either(self.row(ref[1]), self.row(ref[2])))
        if k == "Not":
            return Not
        if k == "DivMod":
            return _DivModDef(ref[1])
        if k in ("ext", "custom"):
            # (in programs that share op objects, one object per operation name serves every node that uses it, the
            # way module-level singletons such as hugr.std.logic.Not are used)
            if self.share_partial:
                key = (k, ref[1])
                if key not in self._shared_ops:
                    self._shared_ops[key] = hx.ext_op(ref[1]) if k == "ext" else hx.custom_op(ref[1])
                return self._shared_ops[key]
            return hx.ext_op(ref[1]) if k == "ext" else hx.custom_op(ref[1])
        if k == "CallIndirect":
            return ops.CallIndirect()
        raise AssertionError(ref)

    def fault(self, where, st, **kw):
        """hook for the fault-injecting subclass (C13); the base interpreter injects nothing"""
        return False

    def step(self, b, what):
        self.calls += 1
        if self.hook is not None:
            self.hook(b.hugr)

    def const_parent(self, b, where):
        from hugr import ops

        if where != "root":
            return None
        root_op = b.hugr[b.hugr.root].op
        if isinstance(root_op, (ops.Module, ops.DFG, ops.FuncDefn, ops.TailLoop)):
            return b.hugr.root
        return None

    # ------------------------------------------------------------------ statements
    def run_stmts(self, b, stmts):
        saved, self._cur = self._cur, b.hugr
        try:
            i = 0
            while i < len(stmts):
                st = stmts[i]
                self.fault("region", st, b=b)
                j = i + 1
                while (st["s"] == "op" and st.get("via") == "extend" and j < len(stmts)
                       and stmts[j].get("batch")):
                    j += 1
                if j > i + 1:
                    self.st_extend_many(b, stmts[i:j])
                else:
                    getattr(self, "st_" + st["s"])(b, st)
                self.step(b, st["s"])
                i = j
        finally:
            self._cur = saved

    def st_op(self, b, st):
        op = self.make_op(st["op"])
        ws = self.wires(st["args"])
        via = st.get("via", "add_op")
        md = st.get("md")
        late = []
        if (self.late_args and ws and st["op"][0] in ("ext", "custom", "Not", "DivMod")
                and via == "add_op"   # (the command form of a registered op takes exactly its wires)
                and sum(map(ord, st["id"])) % 5 == 1):
            # an operation with a fixed signature is added with a prefix of its arguments; the last one or two (local
            # ones) are linked afterwards (see st_call)
            k2 = len(ws)
            while k2 > max(0, len(ws) - 2) and b.hugr[ws[k2 - 1].out_port().node].parent == b.parent_node:
                k2 -= 1
            ws, late = ws[:k2], ws[k2:]
        if via == "add_op":
            n = b.add_op(op, *ws, metadata=md) if md is not None else b.add_op(op, *ws)
        elif via == "add":
            n = b.add(op(*ws), metadata=md) if md is not None else b.add(op(*ws))
        else:
            (n,) = b.extend(op(*ws))
        for i, w in enumerate(late):
            b.hugr.add_link(w.out_port(), n.inp(len(ws) + i))
            self.late_linked += 1
        # what the statement asked for, for oracles that must not read it back from the HUGR: argument i of the
        # statement arrives at input i of the new node
        for i, w in enumerate([*ws, *late]):
            self.arg_links.append((b.hugr, w.out_port(), n.to_node(), i))
        self.nodes[st["id"]] = n
        self.handles.append((f"{via}:{st['op'][0]}", n, len(st["outs"])))
        for i, wid in enumerate(st["outs"]):
            self.w[wid] = n[i]

    def st_extend_many(self, b, sts):
        """several independent commands through ONE extend(...) call"""
        ns = b.extend(*[self.make_op(st["op"])(*self.wires(st["args"])) for st in sts])
        assert len(ns) == len(sts), f"extend returned {len(ns)} nodes for {len(sts)} commands"
        for st, n in zip(sts, ns):
            for i, w in enumerate(self.wires(st["args"])):
                self.arg_links.append((b.hugr, w.out_port(), n.to_node(), i))
            self.nodes[st["id"]] = n
            self.handles.append((f"extend:{st['op'][0]}", n, len(st["outs"])))
            for k, wid in enumerate(st["outs"]):
                self.w[wid] = n[k]

    def st_load(self, b, st):
        if "reuse" in st:
            n = b.load(self.const_nodes[st["reuse"]])
            self.nodes[st["id"]] = n
            self.handles.append(("load", n, 1))
            self.loads.append((n, b.hugr, st["ty"]))
            self.w[st["out"]] = n[0]
            return
        # (every other constant is built from one-shot iterables: the helper constructors take any Iterable)
        self.vb.one_shot = sum(map(ord, st["id"])) % 2 == 1
        v = self.vb.val(st["val"])
        parent = self.const_parent(b, st.get("const_parent", "here"))
        if st.get("via_node"):
            c = b.add_const(v, parent) if parent is not None else b.add_const(v, b.parent_node)
            n = b.load(c)
        else:
            n = b.load(v, const_parent=parent) if parent is not None else b.load(v)
        self.nodes[st["id"]] = n
        # the Const node feeding it (needed when a later statement loads the same constant again)
        self.const_nodes[st["id"]] = c if st.get("via_node") else next(
            iter(b.hugr.linked_ports(n.inp(0)))).node
        self.handles.append(("load", n, 1))
        self.loads.append((n, b.hugr, st["ty"]))
        self.w[st["out"]] = n[0]

    def _inst(self, st):
        if "inst" not in st:
            return {}
        targs = [self.tb.arg(a) for a in st["targs"]]
        # (type_args is a Sequence: a tuple every other time)
        return {"instantiation": self.tb.func(st["inst"]),
                "type_args": tuple(targs) if sum(map(ord, st["id"])) % 2 else targs}

    def st_call(self, b, st):
        f = self.nodes[st["f"]]
        self.fault("call", st, b=b, f=f)
        ws = self.wires(st["args"])
        k = len(ws)
        if self.late_args and ws and sum(map(ord, st["id"])) % 4 == 0:
            # the call is made with a prefix of its arguments; the last one or two (when they come from this region,
            # so that no order edge is needed) are linked afterwards through the store: where the static function
            # edge sits must not depend on how many value ports are connected at the time
            k2 = k
            while k2 > max(0, k - 2) and b.hugr[ws[k2 - 1].out_port().node].parent == b.parent_node:
                k2 -= 1
            k = k2
        n = b.call(f, *ws[:k], **self._inst(st))
        for i in range(k, len(ws)):
            b.hugr.add_link(ws[i].out_port(), n.inp(i))
            self.late_linked += 1
        for i, w in enumerate(ws):
            self.arg_links.append((b.hugr, w.out_port(), n.to_node(), i))
        self.static_links.append((b.hugr, f.to_node(), n.to_node(), len(ws)))
        self.nodes[st["id"]] = n
        self.handles.append(("call", n, len(st["outs"])))
        for i, wid in enumerate(st["outs"]):
            self.w[wid] = n[i]

    def st_loadfn(self, b, st):
        f = self.nodes[st["f"]]
        self.fault("loadfn", st, b=b, f=f)
        n = b.load_function(f, **self._inst(st))
        self.nodes[st["id"]] = n
        # (load_function is not among the APIs whose handles must know their output count: not recorded for C16)
        self.w[st["out"]] = n[0]

    def st_order(self, b, st):
        def res(x):
            if x == "input":
                return b.input_node
            if x == "output":
                return b.output_node
            return self.nodes[x]

        b.add_state_order(res(st["src"]), res(st["dst"]))

    def st_deffn(self, b, st):
        self.define(b, st["func"], parent=b.parent_node)

    # ------------------------------------------------------------------ containers
    def bind(self, params, ports, hugr=None):
        assert len(params) == len(ports), (params, ports)
        saved = self._cur
        if hugr is not None:
            self._cur = hugr
        for p, port in zip(params, ports):
            self.w[p] = port
        self._cur = saved

    def st_dfg(self, b, st):
        from hugr.build import Dfg

        mode = st["mode"]
        args = self.wires(st["args"]) if mode != "root" else []
        if mode == "add":
            d = b.add_nested(*args)
        else:
            d = Dfg(*self.row(st["ptys"]))
        self.bind(st["params"], d.inputs(), d.hugr)
        self.run_stmts(d, st["body"])
        self.fault("dfg", st, d=d)
        d.set_outputs(*self.wires(st["outs_inner"]))
        if mode == "add":
            n = d.to_node()
            self.handles.append(("builder:Dfg", d, len(st["outs"])))
        elif mode == "insert":
            n = b.insert_nested(d, *args)
            self.handles.append(("insert_nested", n, len(st["outs"])))
        else:
            self.handles.append(("builder:Dfg", d, len(st["outs"])))
            return d
        self.nodes[st["id"]] = n
        for i, wid in enumerate(st["outs"]):
            self.w[wid] = n[i]
        return d

    def st_cond(self, b, st):
        from hugr.build import Conditional

        mode = st["mode"]
        sum_ty = self.ty(st["sumty"])
        if mode != "root":
            sw = self.w[st["sum"]]
            args = self.wires(st["args"])

        def build_case(case_b, i):
            cs = st["cases"][i]
            self.bind(cs["params"], case_b.inputs(), case_b.hugr)
            self.run_stmts(case_b, cs["body"])
            self.fault("case", st, case_b=case_b, i=i, outs=self.wires(cs["outs"]))
            case_b.set_outputs(*self.wires(cs["outs"]))

        if mode == "ifelse":
            if_ = b.add_if(sw, *args)
            build_case(if_, 1)
            else_ = if_.add_else()
            build_case(else_, 0)
            n = else_.conditional_node
            self.handles.append(("if/else", n, len(st["outs"])))
        else:
            if mode in ("insert", "root"):
                c = Conditional(sum_ty, self.row(st["otys"]))
            else:
                c = b.add_conditional(sw, *args)
            self.fault("cond", st, c=c, build_case=build_case)
            if mode == "ctx":
                with c:
                    self.fault("cond-ctx", st, c=c, build_case=build_case)
                    for i in st["order"]:
                        with c.add_case(i) as cb:
                            build_case(cb, i)
            else:
                for i in st["order"]:
                    build_case(c.add_case(i), i)
            if mode == "root":
                self.handles.append(("builder:Conditional", c, len(st["outs"])))
                return c
            if mode == "insert":
                n = b.insert_conditional(c, sw, *args)
                self.handles.append(("insert_conditional", n, len(st["outs"])))
            else:
                n = c.to_node()
                self.handles.append(("builder:Conditional", c, len(st["outs"])))
        self.nodes[st["id"]] = n
        for i, wid in enumerate(st["outs"]):
            self.w[wid] = n[i]

    def st_loop(self, b, st):
        from hugr.build import TailLoop

        mode = st["mode"]
        if mode == "add":
            # (Sequences of wires: tuples every other time)
            seq = tuple if sum(map(ord, st["id"])) % 2 else list
            tl = b.add_tail_loop(seq(self.wires(st["just"])), seq(self.wires(st["rest"])))
        else:
            tl = TailLoop(self.row(st["jtys"]), self.row(st["rtys"]))
        self.bind(st["params"], tl.inputs(), tl.hugr)
        self.run_stmts(tl, st["body"])
        self.fault("loop", st, d=tl)
        tl.set_loop_outputs(self.w[st["ctl"]], *self.wires(st["rest_outs"]))
        if mode == "root":
            self.handles.append(("builder:TailLoop", tl, len(st["outs"])))
            return tl
        if mode == "add":
            n = tl.to_node()
            self.handles.append(("builder:TailLoop", tl, len(st["outs"])))
        else:
            seq = tuple if sum(map(ord, st["id"])) % 2 else list
            n = b.insert_tail_loop(tl, seq(self.wires(st["just"])), seq(self.wires(st["rest"])))
            self.handles.append(("insert_tail_loop", n, len(st["outs"])))
        self.nodes[st["id"]] = n
        for i, wid in enumerate(st["outs"]):
            self.w[wid] = n[i]

    def st_cfg(self, b, st):
        from hugr.build import Cfg

        mode = st["mode"]
        if mode == "add":
            cfg = b.add_cfg(*self.wires(st["args"]))
        else:
            cfg = Cfg(*self.row(st["atys"]))
        built: dict[str, object] = {}
        done_edges: set[tuple] = set()
        preds: dict[str, list] = {}
        for blk in st["blocks"]:
            for i, s in enumerate(blk["succs"]):
                preds.setdefault(s, []).append((blk["name"], i))
        for blk in st["blocks"]:
            name = blk["name"]
            if name == "entry":
                bb = cfg.add_entry()
            else:
                bb = None
                if st.get("via") == "successor":
                    for p, i in preds.get(name, []):
                        if p in built:
                            bb = cfg.add_successor(built[p][i])
                            done_edges.add((p, i))
                            break
                if bb is None:
                    bb = cfg.add_block(*self.row(blk["ins"]))
            self.bind(blk["params"], bb.inputs(), bb.hugr)
            self.run_stmts(bb, blk["body"])
            others = self.wires(blk["others"])
            if blk["branch"]["kind"] == "unit":
                bb.set_single_succ_outputs(*others)
            else:
                bb.set_block_outputs(self.w[blk["branch"]["w"]], *others)
            built[name] = bb
            self.handles.append(("builder:Block", bb, None))
        self.fault("cfg", st, cfg=cfg, built=built)
        for blk in st["blocks"]:
            for i, s in enumerate(blk["succs"]):
                if (blk["name"], i) in done_edges:
                    continue
                src = built[blk["name"]][i]
                if s == "exit":
                    if (i + len(blk["name"])) % 2:
                        cfg.branch_exit(src)
                    else:
                        cfg.branch(src, cfg.exit)
                else:
                    cfg.branch(src, built[s])
        if mode == "root":
            self.handles.append(("builder:Cfg", cfg, len(st["outs"])))
            return cfg
        if mode == "add":
            n = cfg.to_node()
            self.handles.append(("builder:Cfg", cfg, len(st["outs"])))
        else:
            n = b.insert_cfg(cfg, *self.wires(st["args"]))
            self.handles.append(("insert_cfg", n, len(st["outs"])))
        self.nodes[st["id"]] = n
        for i, wid in enumerate(st["outs"]):
            self.w[wid] = n[i]

    # ------------------------------------------------------------------ functions / roots
    def define(self, b, f, parent=None, standalone=False):
        from hugr.build import Function

        tparams = [self.tb.param(p) for p in f["tparams"]] or None
        declared = self.row(f["declared"]) if f.get("declared") is not None else None
        if standalone:
            fb = Function(f["name"], self.row(f["ins"]), tparams)
            if declared is not None:
                fb.declare_outputs(declared)
        elif parent is not None:
            fb = b.define_function(f["name"], self.row(f["ins"]), declared, tparams, parent=parent)
        else:
            fb = b.define_function(f["name"], self.row(f["ins"]), declared, tparams)
        self.nodes[f["id"]] = fb.parent_node
        if f.get("md"):
            fb.hugr[fb.parent_node].metadata.update(f["md"])
        self.bind(f["params"], fb.inputs(), fb.hugr)
        self.run_stmts(fb, f["body"])
        self.fault("func", f, fb=fb, outs=self.wires(f["out_wires"]))
        fb.set_outputs(*self.wires(f["out_wires"]))
        return fb

    def run(self, prog):
        """Execute a program; returns the finished Hugr."""
        from hugr import tys
        from hugr.build import Module

        root = prog["root"]
        k = root["k"]
        self.share_partial = bool(prog.get("share_partial"))
        if k == "module":
            m = Module()
            self.root_builder = m
            if root.get("md"):
                for key, v in root["md"].items():
                    m.metadata[key] = v
            for d in root["defs"]:
                if d["d"] == "func":
                    self.define(m, d["func"])
                elif d["d"] == "decl":
                    f = d["func"]
                    sig = tys.PolyFuncType([self.tb.param(p) for p in f["tparams"]],
                                           tys.FunctionType(self.row(f["ins"]), self.row(f["outs"])))
                    self.nodes[f["id"]] = m.declare_function(f["name"], sig)
                elif d["d"] == "alias":
                    m.add_alias_defn(d["name"], self.ty(d["ty"]))
                elif d["d"] == "aliasdecl":
                    m.add_alias_decl(d["name"], self.tb.bound(d["bound"]))
                if self.hook is not None:
                    self.hook(m.hugr)
            return m.hugr
        if k == "func":
            fb = self.define(None, root["func"], standalone=True)
            self.root_builder = fb
            return fb.hugr
        st = root["stmt"]
        b = getattr(self, "st_" + st["s"])(None, st)
        self.root_builder = b
        return b.hugr
