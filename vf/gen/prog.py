"""Generator of well-formed builder programs (JSON ASTs, see DESIGN.md appendix C).

Type-directed forward synthesis with a linearity discipline.  A program is plain JSON so that
it can be hashed, stored as a replay witness and interpreted (vf/interp.py) against the real
builders.  Nothing here imports hugr.

Wires: {"id": "w12", "ty": <type descriptor>}.  A wire is linear iff ref_bound(ty) == "A".
"""

from __future__ import annotations

from .types import ref_bound, subst_row
from .values import VGen, constable, rows_of

Q = ["qubit"]
BOOL = ["bool"]
UNIT = ["unit"]
INT5 = ["int", 5]
FLOAT = ["float"]

EXT_OPS = {  # name -> (ins, outs)
    "H": ([Q], [Q]), "CX": ([Q, Q], [Q, Q]), "Measure": ([Q], [Q, BOOL]), "Rz": ([Q, FLOAT], [Q]),
    "Fan3": ([BOOL], [BOOL, BOOL, BOOL]), "Nop0": ([], []), "Swap": ([BOOL, Q], [Q, BOOL]),
    "QAlloc": ([], [Q]), "QFree": ([Q], []), "CCX": ([Q, Q, Q], [Q, Q, Q]),
}

CFG_SHAPES = {
    # name -> (blocks in construction order, successors, dominators)
    "single": (["entry"], {"entry": ["exit"]}, {"entry": []}),
    "chain": (["entry", "b1"], {"entry": ["b1"], "b1": ["exit"]}, {"entry": [], "b1": ["entry"]}),
    "diamond": (["entry", "b1", "b2", "b3"],
                {"entry": ["b1", "b2"], "b1": ["b3"], "b2": ["b3"], "b3": ["exit"]},
                {"entry": [], "b1": ["entry"], "b2": ["entry"], "b3": ["entry"]}),
    "loop": (["entry", "hdr", "body"],
             {"entry": ["hdr"], "hdr": ["body", "exit"], "body": ["hdr"]},
             {"entry": [], "hdr": ["entry"], "body": ["entry", "hdr"]}),
    "early": (["entry", "b1"], {"entry": ["b1", "exit"], "b1": ["exit"]},
              {"entry": [], "b1": ["entry"]}),
    # more than two successors, a block that is its own successor, an exit reached by the third port
    "switch3": (["entry", "b1", "b2", "b3"],
                {"entry": ["b1", "b2", "b3"], "b1": ["exit"], "b2": ["exit"], "b3": ["exit"]},
                {"entry": [], "b1": ["entry"], "b2": ["entry"], "b3": ["entry"]}),
    "selfloop": (["entry", "hdr"], {"entry": ["hdr"], "hdr": ["hdr", "exit"]},
                 {"entry": [], "hdr": ["entry"]}),
    # two successor ports of one block leading to the same block (the second one joined with Cfg.branch)
    "twin": (["entry", "b1"], {"entry": ["b1", "b1"], "b1": ["exit"]}, {"entry": [], "b1": ["entry"]}),
    "twin-loop": (["entry", "hdr"], {"entry": ["hdr"], "hdr": ["hdr", "hdr", "exit"]},
                  {"entry": [], "hdr": ["entry"]}),
    "twin-exit": (["entry"], {"entry": ["exit", "exit"]}, {"entry": []}),
    "tri-exit": (["entry", "b1", "b2"], {"entry": ["b1", "b2", "exit"], "b1": ["b2"], "b2": ["exit"]},
                 {"entry": [], "b1": ["entry"], "b2": ["entry"]}),
}


def lin(ty) -> bool:
    return ref_bound(ty) == "A"


def discardable(ty) -> bool:
    """can a value of this type be consumed with QFree / UnpackTuple alone?"""
    if not lin(ty):
        return True
    if ty == Q:
        return True
    if ty[0] == "tuple":
        return all(discardable(t) for t in ty[1])
    return False


class Region:
    def __init__(self, kind, outer=(), dom=(), closed=False, in_block=False):
        self.kind = kind
        self.local: list[dict] = []
        self.outer: list[dict] = list(outer)   # copyable, visible through Ext edges
        self.dom: list[dict] = list(dom)       # copyable, visible through Dom edges (blocks only)
        self.nodes: list[str] = []             # statement/node ids created directly here, in order
        self.closed = closed                   # standalone HUGR: no references to anything outside
        self.stmts: list[dict] = []
        self.consts: list[tuple] = []          # (load statement id, type) of constants created from here

    def avail(self):
        return self.local + self.outer + self.dom

    def copyables(self):
        return [w for w in self.avail() if not lin(w["ty"])]


class ProgGen:
    def __init__(self, rng, max_depth=3, budget=40, features=None):
        self.r = rng
        self.max_depth = max_depth
        self.budget = budget
        self.nw = 0
        self.nn = 0
        self.vg = VGen(rng)
        self.funcs: list[dict] = []      # visible module-level functions
        self.feats: dict[str, int] = {} if features is None else features
        self.scoped_funcs: list[dict] = []
        self.force: set[str] = set()
        self.force_callee = None

    # ------------------------------------------------------------------ ids / features
    def wire(self, ty):
        self.nw += 1
        return {"id": f"w{self.nw}", "ty": ty}

    def nid(self):
        self.nn += 1
        return f"n{self.nn}"

    def feat(self, name):
        self.feats[name] = self.feats.get(name, 0) + 1

    # ------------------------------------------------------------------ type helpers
    def ctype(self, depth=1):
        """random constable copyable type (no function types: their constants are DFG hugrs)"""
        while True:
            t = self.vg.const_type(depth, allow_func=False)
            if constable(t) and t[0] not in ("usum",) and not (t[0] == "array" and False):
                return t

    def crow(self, n=2, depth=1):
        return [self.ctype(depth) for _ in range(self.r.randint(0, n))]

    def mixed_row(self, nq=2, nc=2):
        row = [Q] * self.r.randint(0, nq) + self.crow(nc)
        self.r.shuffle(row)
        return row

    # ------------------------------------------------------------------ using wires
    def take(self, rg: Region, w):
        """consume a wire for one use"""
        if lin(w["ty"]):
            rg.local.remove(w)
        if w in rg.outer:
            self.feat("ext-edge")
        if w in rg.dom:
            self.feat("dom-edge")
        return w["id"]

    def find(self, rg: Region, ty, exclude=()):
        c = [w for w in rg.avail() if w["ty"] == ty and w["id"] not in exclude]
        if lin(ty):
            c = [w for w in c if w in rg.local]
        return self.r.choice(c) if c else None

    def emit(self, rg: Region, st):
        rg.stmts.append(st)
        if "id" in st:
            rg.nodes.append(st["id"])
        self.budget -= 1
        return st

    def new_out(self, rg: Region, ty):
        w = self.wire(ty)
        rg.local.append(w)
        return w

    # ------------------------------------------------------------------ producing values
    def load_const(self, rg: Region, ty, at_module=None):
        again = [c for c in rg.consts if c[1] == ty]
        if again and self.r.random() < 0.35:
            # a second LoadConstant fed by the Const node of an earlier load (multi-target static port)
            w = self.wire(ty)
            self.emit(rg, {"s": "load", "id": self.nid(), "reuse": self.r.choice(again)[0], "ty": ty,
                           "out": w["id"]})
            rg.local.append(w)
            self.feat("const-loaded-again")
            return w
        v = self.vg.value(ty, 3)
        w = self.wire(ty)
        st = {"s": "load", "id": self.nid(), "val": v, "ty": ty, "out": w["id"]}
        if not rg.closed or True:
            p = self.r.random()
            if p < 0.6:
                st["const_parent"] = "here"
            elif p < 0.8:
                st["const_parent"] = "root"
                self.feat("static-ext-edge")
            else:
                st["via_node"] = True  # add_const(...) then load(node)
                st["const_parent"] = self.r.choice(["here", "root"])
                if st["const_parent"] == "root":
                    self.feat("static-ext-edge")
        self.emit(rg, st)
        rg.consts.append((st["id"], ty))
        rg.local.append(w)
        self.feat("const")
        return w

    def produce(self, rg: Region, ty, used=()):
        """a wire of copyable type ty (existing or a freshly loaded constant); None if impossible"""
        if self.r.random() < 0.6:
            w = self.find(rg, ty)
            if w is not None:
                return w
        if constable(ty):
            return self.load_const(rg, ty)
        w = self.find(rg, ty)
        if w is not None:
            return w
        if ty[0] == "func":
            f = self.func_of_type(rg, ty)
            if f is not None:
                return self.stmt_loadfn(rg, f)
        return None

    def func_of_type(self, rg, ty):
        if rg.closed:
            return None
        for f in self.funcs:
            if not f["tparams"] and f["outs"] is not None and ["func", f["ins"], f["outs"], []] == ty:
                return f
        return None

    def producible(self, rg: Region, ty):
        return constable(ty) or self.find(rg, ty) is not None

    def settle_linear(self, rg: Region, want_q: int):
        """make the number of available local qubit wires exactly want_q; discard other linear wires"""
        for w in [w for w in rg.local if lin(w["ty"]) and w["ty"] != Q]:
            self.discard(rg, w)
        qs = [w for w in rg.local if w["ty"] == Q]
        while len(qs) > want_q:
            w = qs.pop()
            self.op(rg, ["ext", "QFree"], [w], [])
        while len(qs) < want_q:
            (o,) = self.op(rg, ["ext", "QAlloc"], [], [Q])
            qs.append(o)
        return qs

    def discard(self, rg: Region, w):
        ty = w["ty"]
        if ty == Q:
            self.op(rg, ["ext", "QFree"], [w], [])
        elif ty[0] == "tuple":
            outs = self.op(rg, ["UnpackTuple"], [w], list(ty[1]))
            for o in outs:
                if lin(o["ty"]):
                    self.discard(rg, o)
        else:
            raise AssertionError(f"cannot discard {ty}")

    def goal_row(self, rg: Region, goal):
        """wires for a required output row (qubits from the local pool, copyables produced)"""
        nq = sum(1 for t in goal if t == Q)
        qs = self.settle_linear(rg, nq)
        out = []
        for t in goal:
            if t == Q:
                w = qs.pop()
                rg.local.remove(w)
                out.append(w["id"])
            else:
                w = self.produce(rg, t)
                assert w is not None, f"cannot produce {t}"
                out.append(self.take(rg, w))
        return out

    def free_outputs(self, rg: Region):
        """outputs of an unconstrained region: every remaining linear wire + some copyables"""
        out = [w for w in rg.local if lin(w["ty"])]
        cands = [w for w in rg.local if not lin(w["ty"])]
        extra = self.r.sample(cands, min(len(cands), self.r.randint(0, 3))) if cands else []
        if rg.outer and self.r.random() < 0.15:
            extra.append(self.r.choice(rg.outer))
        if extra and self.r.random() < 0.2:
            extra.append(extra[0])  # a copyable wire used twice
        ws = out + extra
        self.r.shuffle(ws)
        ids = [self.take(rg, w) for w in ws]
        return ids, [w["ty"] for w in ws]

    # ------------------------------------------------------------------ statements
    def op(self, rg: Region, ref, args, out_tys, via=None, md=None):
        st = {"s": "op", "id": self.nid(), "op": ref, "args": [self.take(rg, w) for w in args],
              "outs": [], "via": via or self.r.choice(["add_op", "add_op", "add", "extend"])}
        if md is None and self.r.random() < 0.12:
            md = self.metadata()
        if md is not None and st["via"] != "extend":
            st["md"] = md
            self.feat("metadata")
        outs = [self.new_out(rg, t) for t in out_tys]
        st["outs"] = [o["id"] for o in outs]
        if st["via"] == "extend":
            # commands of one extend(...) call cannot mention each other's outputs: batch this one with the
            # directly preceding extend commands when it is independent of them
            made, i = set(), len(rg.stmts) - 1
            while i >= 0 and rg.stmts[i].get("s") == "op" and rg.stmts[i].get("via") == "extend":
                made |= set(rg.stmts[i]["outs"])
                if not rg.stmts[i].get("batch"):
                    break
                i -= 1
            if made and not (set(st["args"]) & made):
                st["batch"] = True
                self.feat("extend-multi")
        self.emit(rg, st)
        return outs

    def metadata(self):
        r = self.r

        def j(d):
            k = r.choice(["int", "str", "list", "dict", "bool", "none", "float", "big"]
                         if d > 0 else ["int", "str", "bool", "none"])
            if k == "int":
                return r.randint(-5, 5)
            if k == "big":
                return 2 ** 60 + r.randint(0, 9)
            if k == "str":
                return r.choice(["", "x", "ünï ✓", "a\nb", " padded ", "<b>&amp; \"q\" </TD>"])
            if k == "bool":
                return r.random() < 0.5
            if k == "none":
                return None
            if k == "float":
                return r.choice([0.5, -1.25, 1e10])
            if k == "list":
                return [j(d - 1) for _ in range(r.randint(0, 3))]
            # (user data may spell the format's own field names, present and past)
            return {r.choice(["a", "b", "ключ", "extension_reqs", "runtime_reqs", "input_extensions", "parent", "op",
                              "t", "v", "nodes"]): j(d - 1) for _ in range(r.randint(0, 2))}

        return {r.choice(["name", "meta.key", "k", " key ", "k\n", "k<&>", "extension_reqs", "op", "core.title",
                          "core.meta.description", "compat.meta_json"]): j(2)
                for _ in range(r.randint(1, 2))}

    def stmt_simple_op(self, rg: Region):
        r = self.r
        av = rg.avail()
        kinds = ["Noop", "MakeTuple", "UnpackTuple", "Tag", "Not", "DivMod", "ext", "ext", "ext",
                 "CallIndirect", "TagSugar"]
        k = r.choice(kinds)
        if k == "Noop" and av:
            w = r.choice(av)
            if lin(w["ty"]) and w not in rg.local:
                return False
            self.op(rg, ["Noop"], [w], [w["ty"]])
        elif k == "MakeTuple":
            n = r.randint(0, 3)
            ws = self.pick_distinct(rg, n)
            if ws is None:
                return False
            self.op(rg, ["MakeTuple"], ws, [["tuple", [w["ty"] for w in ws]]])
        elif k == "UnpackTuple":
            c = [w for w in av if w["ty"][0] == "tuple" and (not lin(w["ty"]) or w in rg.local)]
            if not c:
                return False
            w = r.choice(c)
            outs = self.op(rg, ["UnpackTuple"], [w], list(w["ty"][1]))
            if len(outs) >= 2:
                self.feat("multi-output")
        elif k in ("Tag", "TagSugar"):
            ws = self.pick_distinct(rg, r.randint(0, 2), copy_only=True)
            if ws is None:
                return False
            row = [w["ty"] for w in ws]
            if k == "Tag":
                rows = [self.crow(2) for _ in range(r.randint(1, 3))]
                tag = r.randrange(len(rows))
                rows[tag] = row
                self.op(rg, ["Tag", tag, rows], ws, [["sum", rows]])
            else:
                s = r.choice(["Some", "Left", "Right", "Continue", "Break"])
                other = self.crow(2)
                if s == "Some":
                    self.op(rg, ["Some", row], ws, [["option", row]])
                elif s in ("Left", "Continue"):
                    self.op(rg, [s, row, other], ws, [["either", row, other]])
                else:
                    self.op(rg, [s, other, row], ws, [["either", other, row]])
        elif k == "Not":
            w = self.find(rg, BOOL)
            if w is None:
                return False
            self.op(rg, ["Not"], [w], [BOOL])
        elif k == "DivMod":
            c = [w for w in av if w["ty"][0] == "int"]
            if not c:
                return False
            a = r.choice(c)
            b = r.choice([w for w in c if w["ty"] == a["ty"]])
            outs = self.op(rg, ["DivMod", a["ty"][1]], [a, b], [a["ty"], a["ty"]])
            self.feat("multi-output")
            if r.random() < 0.5:
                # leave the second output unused ("partially used multi-output op")
                rg.local.remove(outs[1])
                self.feat("partial-multi-output")
        elif k == "ext":
            name = r.choice(list(EXT_OPS))
            ins, outs = EXT_OPS[name]
            ws = self.pick_typed(rg, ins)
            if ws is None:
                return False
            form = r.choice(["ext", "custom"])
            os_ = self.op(rg, [form, name], ws, list(outs))
            if len(os_) >= 2:
                self.feat("multi-output")
            if name == "Fan3" and r.random() < 0.5:
                for o in os_[1:]:
                    rg.local.remove(o)
                self.feat("partial-multi-output")
        elif k == "CallIndirect":
            c = [w for w in av if w["ty"][0] == "func" and not w["ty"][3]]
            if not c:
                return False
            f = r.choice(c)
            ws = self.pick_typed(rg, f["ty"][1], exclude=[f["id"]])
            if ws is None:
                return False
            self.op(rg, ["CallIndirect"], [f, *ws], list(f["ty"][2]))
            self.feat("call-indirect")
        else:
            return False
        return True

    def stmt_callind(self, rg: Region):
        c = [w for w in rg.avail() if w["ty"][0] == "func" and not w["ty"][3]]
        if not c:
            return False
        f = self.r.choice(c)
        ws = []
        for t in f["ty"][1]:
            w = self.find(rg, t, exclude=[f["id"], *[x["id"] for x in ws if lin(x["ty"])]])
            if w is None and constable(t):
                w = self.load_const(rg, t)
            if w is None:
                return False
            ws.append(w)
        prev = list(rg.nodes)
        self.op(rg, ["CallIndirect"], [f, *ws], list(f["ty"][2]), via=self.r.choice(["add_op", "add"]))
        self.feat("call-indirect")
        if prev and self.r.random() < 0.5:
            # an indirect call sequenced after an earlier node of the region by an explicit order edge (its function
            # arrives on a value port: the order port follows the value inputs directly)
            rg.stmts.append({"s": "order", "src": self.r.choice(prev), "dst": rg.nodes[-1]})
            self.feat("explicit-order-edge")
            self.feat("order-edge-into-call-indirect")
        return True

    def pick_distinct(self, rg: Region, n, copy_only=False):
        """n wires; a linear wire at most once"""
        pool = [w for w in rg.avail() if not lin(w["ty"]) or (w in rg.local and not copy_only)]
        out, used = [], set()
        for _ in range(n):
            c = [w for w in pool if not (lin(w["ty"]) and w["id"] in used)]
            if not c:
                return None
            w = self.r.choice(c)
            used.add(w["id"])
            out.append(w)
        return out

    def pick_typed(self, rg: Region, tys, exclude=()):
        out, used = [], set(exclude)
        for t in tys:
            c = [w for w in rg.avail() if w["ty"] == t
                 and not (lin(t) and (w["id"] in used or w not in rg.local))]
            if not c:
                return None
            w = self.r.choice(c)
            if lin(t):
                used.add(w["id"])
            out.append(w)
        return out

    def stmt_load(self, rg: Region):
        self.load_const(rg, self.vg.const_type(2, allow_func=True)
                        if self.r.random() < 0.3 else self.ctype(2))
        return True

    def args_for(self, rg: Region, tys_):
        """wires of the given types: existing ones, or freshly loaded constants for copyable types"""
        ws = self.pick_typed(rg, tys_)
        if ws is not None:
            return ws
        ws, used = [], set()
        for t in tys_:
            c = [w for w in rg.avail() if w["ty"] == t and not (lin(t) and (w["id"] in used or w not in rg.local))]
            if c:
                w = self.r.choice(c)
            elif not lin(t) and constable(t):
                w = self.load_const(rg, t)
            elif t == Q:
                (w,) = self.op(rg, ["ext", "QAlloc"], [], [Q])
            else:
                return None
            if lin(t):
                used.add(w["id"])
            ws.append(w)
        return ws

    def stmt_call(self, rg: Region, f=None, arity=None):
        fs = self.callable_funcs(rg)
        if f is None:
            if not fs:
                return False
            f = self.r.choice(fs)
        inst_ins, inst_outs, targs = self.instantiate(rg, f, arity)
        if inst_ins is None:
            return False
        ws = self.args_for(rg, inst_ins)
        if ws is None:
            return False
        st = {"s": "call", "id": self.nid(), "f": f["id"], "args": [self.take(rg, w) for w in ws]}
        if f["tparams"]:
            st["inst"] = ["func", inst_ins, inst_outs, []]
            st["targs"] = targs
            self.feat("poly-call")
            if len(inst_ins) != len(f["ins"]) or len(inst_outs) != len(f["outs"]):
                self.feat("poly-call-arity-change")
        outs = [self.new_out(rg, t) for t in inst_outs]
        st["outs"] = [o["id"] for o in outs]
        st["n_in"] = len(inst_ins)
        self.emit(rg, st)
        self.feat("call")
        if f.get("recursive_ok") == "self":
            self.feat("recursive-call")
        return True

    def stmt_loadfn(self, rg: Region, f=None):
        fs = self.callable_funcs(rg)
        if f is None:
            if not fs:
                return None
            f = self.r.choice(fs)
        inst_ins, inst_outs, targs = self.instantiate(rg, f)
        if inst_ins is None:
            return None
        ty = ["func", inst_ins, inst_outs, []]
        st = {"s": "loadfn", "id": self.nid(), "f": f["id"]}
        if f["tparams"]:
            st["inst"] = ty
            st["targs"] = targs
        w = self.new_out(rg, ty)
        st["out"] = w["id"]
        self.emit(rg, st)
        self.feat("load-function")
        return w

    def callable_funcs(self, rg: Region):
        if rg.closed:
            return []
        return [f for f in self.funcs + self.scoped_funcs if f["outs"] is not None]

    def instantiate(self, rg: Region, f, arity=None):
        if not f["tparams"]:
            return f["ins"], f["outs"], []
        targs = []
        for p in f["tparams"]:
            if p[0] == "T":
                c = [w["ty"] for w in rg.avail() if p[1] == "A" or not lin(w["ty"])]
                t = self.r.choice(c) if c and self.r.random() < 0.7 else self.ctype(1)
                targs.append(["t", t])
            elif p[0] == "N":
                targs.append(["n", self.r.choice([0, 3, 6])])
            elif p[0] == "S":
                targs.append(["s", self.r.choice(["", "ärg"])])
            elif p[0] == "E":
                targs.append(["exts", []])
            else:  # ["L", ["T", b]]
                n = self.r.choice([0, 1, 2, 3]) if arity is None else arity
                targs.append(["seq", [["t", self.ctype(1) if p[1][1] == "C" or self.r.random() < 0.6 else Q]
                                      for _ in range(n)]])
        return subst_row(f["ins"], targs), subst_row(f["outs"], targs), targs

    def stmt_order(self, rg: Region):
        if len(rg.nodes) < 2:
            return False
        i = self.r.randrange(len(rg.nodes) - 1)
        j = self.r.randrange(i + 1, len(rg.nodes))
        rg.stmts.append({"s": "order", "src": rg.nodes[i], "dst": rg.nodes[j]})
        self.feat("explicit-order-edge")
        return True

    def stmt_order_io(self, rg: Region):
        if not rg.nodes:
            return False
        n = self.r.choice(rg.nodes)
        if self.r.random() < 0.5:
            rg.stmts.append({"s": "order", "src": "input", "dst": n})
        else:
            rg.stmts.append({"s": "order", "src": n, "dst": "output"})
        self.feat("explicit-order-edge")
        return True

    # ------------------------------------------------------------------ containers
    def child_region(self, rg: Region, kind, params, closed=False, carry_dom=False):
        closed = closed or rg.kind == "host"
        outer = [] if (closed or kind == "func") else [w for w in rg.local + rg.outer if not lin(w["ty"])]
        ch = Region(kind, outer=outer, closed=closed or rg.closed and kind != "func")
        if rg.closed:
            ch.closed = True
        ch.local = list(params)
        return ch

    def body(self, rg: Region, depth, n):
        """fill a region with up to n random statements"""
        saved = list(self.scoped_funcs)
        for _ in range(n):
            if self.budget <= 0:
                break
            self.statement(rg, depth)
        rg._scoped_after_body = list(self.scoped_funcs)
        self.scoped_funcs = saved

    def statement(self, rg: Region, depth):
        r = self.r
        choices = ["op"] * 8 + ["load"] * 2 + ["order", "order_io"]
        if self.callable_funcs(rg):
            choices += ["call"] * 5 + ["loadfn"] * 2
        if any(w["ty"][0] == "func" for w in rg.avail()):
            choices += ["callind"] * 2
        if depth < self.max_depth and self.budget > 6:
            choices += ["dfg", "cond", "loop", "cfg", "dfg", "cond"]
            if not rg.closed:
                choices += ["nested_func"]
        k = r.choice(choices)
        if k == "op":
            for _ in range(4):
                if self.stmt_simple_op(rg):
                    return
        elif k == "load":
            self.stmt_load(rg)
        elif k == "call":
            for _ in range(3):
                if self.stmt_call(rg):
                    return
        elif k == "callind":
            self.stmt_callind(rg)
        elif k == "loadfn":
            self.stmt_loadfn(rg)
        elif k == "order":
            self.stmt_order(rg)
        elif k == "order_io":
            self.stmt_order_io(rg)
        elif k == "dfg":
            self.stmt_dfg(rg, depth)
        elif k == "cond":
            self.stmt_cond(rg, depth)
        elif k == "loop":
            self.stmt_loop(rg, depth)
        elif k == "cfg":
            self.stmt_cfg(rg, depth)
        elif k == "nested_func":
            self.stmt_nested_func(rg, depth)

    def pick_args(self, rg: Region, maxn=3, need_discardable=True):
        n = self.r.randint(0, maxn)
        pool = [w for w in rg.avail() if (not lin(w["ty"]) or w in rg.local)
                and (not need_discardable or discardable(w["ty"]))]
        ws, used = [], set()
        for _ in range(n):
            c = [w for w in pool if not (lin(w["ty"]) and w["id"] in used)]
            if not c:
                break
            w = self.r.choice(c)
            used.add(w["id"])
            ws.append(w)
        return ws

    def mode(self, rg):
        return self.r.choice(["add", "add", "insert"])

    def stmt_dfg(self, rg: Region, depth, args=None, closed=False):
        mode = "insert" if closed else self.mode(rg)
        ws = self.pick_args(rg, need_discardable=False) if args is None else args
        params = [self.wire(w["ty"]) for w in ws]
        ch = self.child_region(rg, "dfg", params, closed=(mode == "insert"))
        self.body(ch, depth + 1, self.r.randint(0, 5))
        outs_inner, out_tys = self.free_outputs(ch)
        st = {"s": "dfg", "id": self.nid(), "args": [self.take(rg, w) for w in ws],
              "params": [p["id"] for p in params], "ptys": [p["ty"] for p in params],
              "body": ch.stmts, "outs_inner": outs_inner, "mode": mode}
        outs = [self.new_out(rg, t) for t in out_tys]
        st["outs"] = [o["id"] for o in outs]
        self.emit(rg, st)
        self.feat("nested-dfg")
        self.feat(f"mode-{mode}")
        self.feat(f"depth-{depth + 1}")
        return st

    def sum_wire(self, rg: Region):
        """a wire of sum type with copyable rows, to branch on"""
        c = [w for w in rg.copyables() if rows_of(w["ty"]) is not None and w["ty"][0] != "tuple"
             and 1 <= len(rows_of(w["ty"])) <= 4]
        if c and self.r.random() < 0.6:
            return self.r.choice(c)
        k = self.r.choice(["bool", "sum", "option", "either", "usum"])
        t = {"bool": BOOL, "sum": ["sum", [self.crow(2) for _ in range(self.r.randint(1, 3))]],
             "option": ["option", self.crow(2)], "either": ["either", self.crow(2), self.crow(1)],
             "usum": ["usum", 3]}[k]
        return self.load_const(rg, t)

    def goal(self, rg: Region, nq=None):
        nq = self.r.randint(0, 2) if nq is None else nq
        row = [Q] * nq + self.crow(2)
        self.r.shuffle(row)
        return row

    def stmt_cond(self, rg: Region, depth, sw=None):
        mode = self.r.choice(["add", "ctx", "insert", "ifelse"])
        if sw is not None:
            mode = self.r.choice(["add", "ctx"])
        elif mode != "ifelse":
            sw = self.sum_wire(rg)
        else:
            sw = self.find(rg, BOOL) or self.load_const(rg, BOOL)
        rows = rows_of(sw["ty"])
        others = [w for w in self.pick_args(rg, 3) if w["id"] != sw["id"]]
        goal = self.goal(rg)
        cases = []
        for i, row in enumerate(rows):
            params = [self.wire(t) for t in [*row, *[w["ty"] for w in others]]]
            ch = self.child_region(rg, "case", params, closed=(mode == "insert"))
            self.body(ch, depth + 1, self.r.randint(0, 3))
            outs = self.goal_row(ch, goal)
            cases.append({"params": [p["id"] for p in params], "body": ch.stmts, "outs": outs})
        order = list(range(len(rows)))
        if mode == "ifelse":
            order = [1, 0]
        else:
            self.r.shuffle(order)
        st = {"s": "cond", "id": self.nid(), "sum": self.take(rg, sw), "sumty": sw["ty"],
              "args": [self.take(rg, w) for w in others], "otys": [w["ty"] for w in others],
              "cases": cases, "order": order, "mode": mode, "goal": goal}
        outs = [self.new_out(rg, t) for t in goal]
        st["outs"] = [o["id"] for o in outs]
        self.emit(rg, st)
        self.feat("conditional")
        self.feat(f"cond-mode-{mode}")
        if len(rows) >= 3:
            self.feat("cond-3+cases")
        if any(t == Q for t in goal) or any(lin(w["ty"]) for w in others):
            self.feat("cond-linear")
        self.feat(f"depth-{depth + 1}")

    def stmt_loop(self, rg: Region, depth):
        mode = self.mode(rg)
        just = self.pick_args(rg, 2)
        rest = [w for w in self.pick_args(rg, 2) if w["id"] not in {x["id"] for x in just if lin(x["ty"])}]
        # a linear wire must not be passed twice
        seen, rest2 = {w["id"] for w in just}, []
        for w in rest:
            if lin(w["ty"]) and w["id"] in seen:
                continue
            seen.add(w["id"])
            rest2.append(w)
        rest = rest2
        jt, rt = [w["ty"] for w in just], [w["ty"] for w in rest]
        # linear non-qubit types cannot be re-produced inside the body: restrict to qubits/copyables
        if any(lin(t) and t != Q for t in jt + rt):
            return
        ot = self.goal(rg)
        params = [self.wire(t) for t in jt + rt]
        ch = self.child_region(rg, "loop", params, closed=(mode == "insert"))
        self.body(ch, depth + 1, self.r.randint(0, 4))
        cont = self.r.random() < 0.4 and all(t == Q or self.producible(ch, t) for t in jt)
        row = jt if cont else ot
        if not all(t == Q or self.producible(ch, t) for t in row + rt):
            return
        # settle linear: qubits needed for the control row and the rest row together
        ws = self.goal_row(ch, row + rt)
        ctl = self.wire(["sum", [jt, ot]])
        ch.stmts.append({"s": "op", "id": self.nid(), "op": ["Tag", 0 if cont else 1, [jt, ot]],
                         "args": ws[:len(row)], "outs": [ctl["id"]], "via": "add_op"})
        st = {"s": "loop", "id": self.nid(), "just": [self.take(rg, w) for w in just],
              "rest": [self.take(rg, w) for w in rest], "jtys": jt, "rtys": rt, "otys": ot,
              "params": [p["id"] for p in params], "body": ch.stmts, "ctl": ctl["id"],
              "rest_outs": ws[len(row):], "mode": mode}
        outs = [self.new_out(rg, t) for t in ot + rt]
        st["outs"] = [o["id"] for o in outs]
        self.emit(rg, st)
        self.feat("tail-loop")
        if rt:
            self.feat("tail-loop-rest")
        self.feat(f"mode-{mode}")
        self.feat(f"depth-{depth + 1}")

    def stmt_cfg(self, rg: Region, depth):
        r = self.r
        mode = self.mode(rg)
        shape = r.choice(list(CFG_SHAPES))
        names, succs, doms = CFG_SHAPES[shape]
        args = self.pick_args(rg, 3)
        if any(lin(w["ty"]) and w["ty"] != Q for w in args):
            return
        atys = [w["ty"] for w in args]
        cfg_outs = self.goal(rg)
        # input rows per block; blocks that are alternatives of one predecessor may share a row
        ins = {"entry": atys, "exit": cfg_outs}
        for n in names[1:]:
            ins[n] = self.goal(rg)
        same_row = {"diamond": [("b1", "b2")], "loop": [("body", "exit")], "early": [("b1", "exit")]}
        share = r.random() < 0.6
        if share:
            for a, b in same_row.get(shape, []):
                ins[a] = ins[b] = list(ins[b])
        blocks, locals_of = [], {}
        closed = mode == "insert" or rg.kind == "host"
        for n in names:
            params = [self.wire(t) for t in ins[n]]
            dom = [w for d in doms[n] for w in locals_of[d] if not lin(w["ty"])] if r.random() < 0.7 else []
            ch = Region("block", outer=[] if closed else
                        [w for w in rg.local + rg.outer if not lin(w["ty"])], dom=dom,
                        closed=closed or rg.closed)
            ch.local = list(params)
            # (builders nested in a block cannot see Dom wires: child_region never passes them on)
            self.body(ch, depth + 1, r.randint(0, 3))
            ss = succs[n]
            blk = {"name": n, "ins": ins[n], "params": [p["id"] for p in params], "succs": ss}
            if len(ss) == 1:
                ws = self.goal_row(ch, ins[ss[0]])
                blk["branch"] = {"kind": "unit"}
                blk["others"] = ws
            elif len(ss) == 2 and ins[ss[0]] == ins[ss[1]] and r.random() < 0.8:
                ws = self.goal_row(ch, [BOOL, *ins[ss[0]]])
                blk["branch"] = {"kind": "wire", "w": ws[0]}
                blk["others"] = ws[1:]
            else:
                tag = r.randrange(len(ss))
                rows = [ins[s_] for s_ in ss]
                if len(ss) > 2:
                    self.feat("cfg-3-way-branch")
                ws = self.goal_row(ch, rows[tag])
                ctl = self.wire(["sum", rows])
                ch.stmts.append({"s": "op", "id": self.nid(), "op": ["Tag", tag, rows], "args": ws,
                                 "outs": [ctl["id"]], "via": "add_op"})
                blk["branch"] = {"kind": "wire", "w": ctl["id"]}
                blk["others"] = []
                self.feat("cfg-asymmetric-branch")
            blk["body"] = ch.stmts
            # wires a dominated block may use: everything defined directly in this block
            locals_of[n] = [w for w in self._defined(ch.stmts, params)]
            blocks.append(blk)
            if dom and any(self._uses(ch.stmts + [blk], {w["id"] for w in dom})):
                pass
        st = {"s": "cfg", "id": self.nid(), "args": [self.take(rg, w) for w in args], "atys": atys,
              "shape": shape, "blocks": blocks, "mode": mode, "via": r.choice(["successor", "block"]),
              "out_tys": cfg_outs}
        outs = [self.new_out(rg, t) for t in cfg_outs]
        st["outs"] = [o["id"] for o in outs]
        self.emit(rg, st)
        self.feat("cfg")
        self.feat(f"cfg-{shape}")
        self.feat(f"mode-{mode}")
        self.feat(f"depth-{depth + 1}")

    def _defined(self, stmts, params):
        """wires defined directly by the statements of a block (not inside nested containers)"""
        out = list(params)
        for st in stmts:
            tys = st.get("_out_tys")
            for key in ("outs",):
                for i, wid in enumerate(st.get(key, [])):
                    t = self._wtypes.get(wid)
                    if t is not None:
                        out.append({"id": wid, "ty": t})
            if "out" in st and st["out"] in self._wtypes:
                out.append({"id": st["out"], "ty": self._wtypes[st["out"]]})
        return out

    def _uses(self, stmts, ids):
        return [True for st in stmts if ids & set(st.get("args", []))]

    def stmt_nested_func(self, rg: Region, depth):
        """a function defined inside a dataflow region (scoped definition) and called there"""
        f = self.gen_func(f"inner{self.nn}", depth + 1, parent="here", poly=False)
        rg.stmts.append({"s": "deffn", "func": f})
        self.scoped_funcs.append(f)
        self.feat("nested-funcdefn")
        self.budget -= 1

    # ------------------------------------------------------------------ functions / module
    def gen_func(self, name, depth, parent="root", poly=None, declare=None, recursion=True):
        r = self.r
        poly = r.random() < 0.25 if poly is None else poly
        tparams, ins = [], self.mixed_row(2, 3)
        if poly:
            tparams = [["T", r.choice(["C", "A"])] for _ in range(r.randint(1, 2))]
            ins = ins + [["var", i, p[1]] for i, p in enumerate(tparams) for _ in range(r.randint(1, 2))]
            r.shuffle(ins)
            if r.random() < 0.35:
                # a further parameter that is not a type (unbounded / bounded nat, string, extension set); the body
                # cannot mention it, calls have to supply an argument for it
                tparams.append(r.choice([["N", None], ["N", None], ["N", 7], ["S"], ["E"]]))
                self.feat("non-type-param")
        fid = self.nid()
        params = [self.wire(t) for t in ins]
        declare = (r.random() < 0.4 and not poly) if declare is None else declare
        if name != "main" and r.random() < 0.3:
            # names are free text: non-ASCII, empty, with spaces, or the same as another function's
            name = r.choice(["ƒ-é ψ", "", "dup", "dup", "a b", "x.y::z", name + "✓", " f\n", "f<T>&g"])
            self.feat("odd-function-name")
        f = {"name": name, "id": fid, "ins": ins, "tparams": tparams, "outs": None, "parent": parent,
             "params": [p["id"] for p in params]}
        if r.random() < 0.1:
            f["md"] = self.metadata()
        ch = Region("func", outer=[], closed=False)
        ch.local = list(params)
        if self.force_callee is not None and parent == "root" and recursion:
            # quota: a call to a row-polymorphic declaration at an arity different from the body's
            self.stmt_call(ch, f=self.force_callee, arity=r.choice([0, 2, 3]))
        if declare:
            goal = self.goal(ch)
            f["declared"] = goal
            f["outs"] = goal
            f["recursive_ok"] = "self"
            saved = list(self.scoped_funcs)
            if recursion:
                (self.funcs if parent == "root" else self.scoped_funcs).append(f)
            self.body(ch, depth, r.randint(1, 6))
            f["body"] = ch.stmts
            f["out_wires"] = self.goal_row(ch, goal)
            f["body"] = ch.stmts
            f["recursive_ok"] = True
            if parent != "root":
                self.scoped_funcs = saved
        else:
            self.body(ch, depth, r.randint(1, 6))
            f["out_wires"], f["outs"] = self.free_outputs(ch)
            f["body"] = ch.stmts
            f["declared"] = None
            if parent == "root":
                self.funcs.append(f)
        if poly:
            self.feat("poly-funcdefn")
        return f

    def gen_decl(self, name, k=None):
        r = self.r
        k = k or r.choice(["mono", "poly", "rowpoly"])
        f = {"name": name, "id": self.nid(), "decl": True, "tparams": [], "parent": "root"}
        if k == "mono":
            f["ins"], f["outs"] = self.mixed_row(1, 2), self.mixed_row(1, 2)
        elif k == "poly":
            b = r.choice(["C", "A"])
            f["tparams"] = [["T", b]]
            v = ["var", 0, b]
            f["ins"], f["outs"] = [v, *self.crow(1)], [v, *self.crow(1)]
        else:
            b = r.choice(["C", "C", "A"])
            f["tparams"] = [["L", ["T", b]]]
            rv = ["rowvar", 0, b]
            f["ins"], f["outs"] = [*self.crow(1), rv], [rv, *self.crow(1)]
            self.feat("rowpoly-decl")
        self.funcs.append(f)
        return f

    def module(self):
        r = self.r
        defs = []
        n = r.randint(1, 4)
        if "rowpoly-call" in self.force:
            d = self.gen_decl("rowdecl", k="rowpoly")
            defs.append({"d": "decl", "func": d})
            self.force_callee = d
        for i in range(n):
            if self.budget <= 0 and defs:
                break
            if r.random() < 0.25:
                defs.append({"d": "decl", "func": self.gen_decl(f"decl{i}")})
            else:
                defs.append({"d": "func", "func": self.gen_func(f"f{i}" if i else "main", 1)})
            if r.random() < 0.15:
                defs.append({"d": "alias", "name": f"Al{i}", "ty": self.ctype(1)})
            if r.random() < 0.1:
                defs.append({"d": "aliasdecl", "name": f"Ad{i}", "bound": r.choice("CA")})
        root = {"k": "module", "defs": defs}
        if r.random() < 0.2:
            root["md"] = self.metadata()
        return {"root": root, "features": self.feats}

    def standalone(self, kind):
        """program whose root is a single container builder (Dfg / Cfg / Conditional / TailLoop / Function)"""
        rg = Region("host", closed=True)
        if kind == "func":
            # a FuncDefn root cannot call itself: the root node must not have edges
            f = self.gen_func("main", 1, parent="root", poly=self.r.random() < 0.2, recursion=False)
            self.funcs = []
            return {"root": {"k": "func", "func": f}, "features": self.feats}
        ins = self.mixed_row(2, 3)
        if kind == "cond":
            k = self.r.choice(["bool", "sum", "option", "either", "usum"])
            ins = [{"bool": BOOL, "sum": ["sum", [self.crow(2) for _ in range(self.r.randint(1, 3))]],
                    "option": ["option", self.crow(2)], "either": ["either", self.crow(2), self.crow(1)],
                    "usum": ["usum", 3]}[k]] + ins
        rg.local = [self.wire(t) for t in ins]
        host_params = [dict(w) for w in rg.local]
        before = len(rg.stmts)
        for _ in range(20):
            {"dfg": lambda: self.stmt_dfg(rg, 0, args=list(rg.local), closed=True),
             "cfg": lambda: self.stmt_cfg(rg, 0), "cond": lambda: self.stmt_cond(rg, 0, sw=rg.local[0]),
             "loop": lambda: self.stmt_loop(rg, 0)}[kind]()
            tops = [s for s in rg.stmts[before:] if s["s"] == kind]
            if tops:
                break
        else:
            return None
        top = tops[-1]
        top["mode"] = "root"
        # the container is the root: everything emitted before it in the host (constants for the
        # branch value etc.) cannot exist, so only accept programs where the host emitted nothing else
        if len(rg.stmts) - before != 1:
            return None
        return {"root": {"k": kind, "stmt": top,
                         "host_params": [[w["id"], w["ty"]] for w in host_params]},
                "features": self.feats}


class _TypedProgGen(ProgGen):
    """ProgGen that remembers the type of every wire it creates (needed for Dom visibility)."""

    def __init__(self, *a, **k):
        super().__init__(*a, **k)
        self._wtypes: dict[str, list] = {}

    def wire(self, ty):
        w = super().wire(ty)
        self._wtypes[w["id"]] = ty
        return w


def gen_program(rng, kind=None, max_depth=3, budget=40, force=(), share_partial=None):
    """A program AST (dict) with its feature vector; kind in module|dfg|func|cfg|cond|loop.
    force: quota features to build in by construction ("rowpoly-call": module programs only)."""
    kind = kind or rng.choice(["module"] * 6 + ["dfg", "func", "cfg", "cond", "loop"])
    if share_partial is None:
        share_partial = rng.random() < 0.2
    for attempt in range(30):
        g = _TypedProgGen(rng, max_depth=max_depth, budget=budget)
        g.force = set(force)
        p = g.module() if kind == "module" else g.standalone(kind)
        if p is not None:
            p["kind"] = kind
            p["n_wires"] = g.nw
            p["n_stmts"] = g.nn
            if share_partial:
                # every Noop() / MakeTuple() / UnpackTuple() / CallIndirect() of the program is ONE op object
                p["share_partial"] = True
                p["features"]["shared-partial-op"] = 1
            return p
    g = _TypedProgGen(rng, max_depth=max_depth, budget=budget)
    p = g.module()
    p["kind"] = "module"
    p["n_wires"] = g.nw
    p["n_stmts"] = g.nn
    return p
