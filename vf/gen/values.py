"""Value descriptors (plain JSON), generator of well-typed values for a target type
descriptor, builder into `hugr.val` objects, and — independently — the type descriptor a
value must report.

value: ["sum",tag,[[t..]..],[v..]]           general val.Sum over tys.Sum(rows)
       ["unitsum",tag,size] ["unit"] ["true"] ["false"]
       ["tuple",[v..]] ["some",[v..]] ["none",[t..]] ["left",[v..],[t..]] ["right",[t..],[v..]]
       ["int",w,n] ["float",x] ["string",s]
       ["array",t,[v..]] ["list",t,[v..]] ["sarray",t,[v..],name]
       ["func",{"ins":[t..],"perm":[i..],"reqs":[ext..],"root":"dfg"|"defn","md":{..}}]
                                                 function value over a small generated body (a DFG, optionally
                                                 declaring runtime requirements, or a FuncDefn) permuting its inputs
       ["extv",name,t,payload,[ext..]]           raw val.Extension (custom constant of a copyable type)
"""

from __future__ import annotations

from .types import ref_bound


def type_of(v):
    k = v[0]
    if k == "sum":
        return ["sum", v[2]]
    if k == "unitsum":
        return ["usum", v[2]]
    if k == "unit":
        return ["unit"]
    if k in ("true", "false"):
        return ["bool"]
    if k == "tuple":
        return ["tuple", [type_of(x) for x in v[1]]]
    if k == "some":
        return ["option", [type_of(x) for x in v[1]]]
    if k == "none":
        return ["option", v[1]]
    if k == "left":
        return ["either", [type_of(x) for x in v[1]], v[2]]
    if k == "right":
        return ["either", v[1], [type_of(x) for x in v[2]]]
    if k == "int":
        return ["int", v[1]]
    if k == "float":
        return ["float"]
    if k == "string":
        return ["string"]
    if k == "array":
        return ["array", len(v[2]), v[1]]
    if k == "list":
        return ["list", v[1]]
    if k == "sarray":
        return ["sarray", v[1]]
    if k == "func":
        return ["func", v[1]["ins"], func_outs(v[1]), list(v[1].get("reqs", []))]
    if k == "extv":
        return v[2]
    raise AssertionError(v)


def func_outs(f):
    ins = f["ins"]
    return [ins[i] for i in f["perm"]]


def vdepth(v) -> int:
    k = v[0]
    subs = []
    if k == "sum":
        subs = v[3]
    elif k in ("tuple", "some", "left"):
        subs = v[1]
    elif k == "right":
        subs = v[2]
    elif k in ("array", "list", "sarray"):
        subs = v[2]
    return 1 + max((vdepth(s) for s in subs), default=0)


def rows_of(t):
    """variant rows of a sum-like type descriptor, or None"""
    k = t[0]
    if k == "unit":
        return [[]]
    if k == "bool":
        return [[], []]
    if k == "usum":
        return [[] for _ in range(t[1])]
    if k == "sum":
        return t[1]
    if k == "tuple":
        return [t[1]]
    if k == "option":
        return [[], t[1]]
    if k == "either":
        return [t[1], t[2]]
    return None


def mentions_var(t) -> bool:
    if isinstance(t, list):
        if t and t[0] in ("var", "rowvar"):
            return True
        return any(mentions_var(x) for x in t)
    if isinstance(t, dict):
        return any(mentions_var(v) for v in t.values())
    return False


def constable(t) -> bool:
    """can gen_value produce a value of this type?  (A constant's type must not mention type
    variables: static edges cannot refer to the variables of an enclosing function.)"""
    if mentions_var(t):
        return False
    k = t[0]
    rows = rows_of(t)
    if rows is not None:
        return any(all(constable(x) for x in row) for row in rows)
    if k in ("int", "float", "string"):
        return True
    if k in ("array",):
        return t[1] == 0 or constable(t[2])
    if k in ("list", "sarray"):
        return True if k == "list" else ref_bound(t[1]) == "C"
    if k == "func":
        return func_constable(t)
    # anything else that is copyable can be inhabited by a custom constant (raw val.Extension)
    return k in ("usize", "opaque", "ext") and ref_bound(t) == "C"


def func_constable(t):
    # a function value is built as a DFG permuting/duplicating/dropping its inputs:
    # needs every output type to occur among the inputs, copyable if used != once
    ins, outs = t[1], t[2]
    return _func_perm(ins, outs) is not None


def _func_perm(ins, outs):
    used = [0] * len(ins)
    perm = []
    for o in outs:
        cands = [i for i, x in enumerate(ins) if x == o]
        if not cands:
            return None
        lin = ref_bound(o) == "A"
        pick = None
        for i in cands:
            if not lin or used[i] == 0:
                pick = i
                break
        if pick is None:
            return None
        used[pick] += 1
        perm.append(pick)
    for i, x in enumerate(ins):
        if ref_bound(x) == "A" and used[i] != 1:
            return None
    return perm


class VGen:
    def __init__(self, rng):
        self.r = rng

    def value(self, t, depth=3):
        """A value descriptor of type t (precondition: constable(t))."""
        r = self.r
        k = t[0]
        if k in ("usize", "opaque", "ext") or (
                k in ("int", "float", "string", "list") and r.random() < 0.04):
            return self.extv(t)
        rows = rows_of(t)
        if rows is not None:
            tags = [i for i, row in enumerate(rows) if all(constable(x) for x in row)]
            tag = r.choice(tags)
            vals = [self.value(x, depth - 1) for x in rows[tag]]
            general = ["sum", tag, [list(row) for row in rows], vals]
            if r.random() < 0.35:
                return general
            if k == "unit":
                return ["unit"] if r.random() < 0.5 else ["unitsum", 0, 1]
            if k == "bool":
                return [["false"], ["true"]][tag] if r.random() < 0.6 else ["unitsum", tag, 2]
            if k == "usum":
                return ["unitsum", tag, t[1]]
            if k == "tuple":
                return ["tuple", vals]
            if k == "option":
                return ["some", vals] if tag == 1 else ["none", t[1]]
            if k == "either":
                return ["left", vals, t[2]] if tag == 0 else ["right", t[1], vals]
            return general
        if k == "int":
            w = t[1]
            hi = 2 ** (2 ** w) - 1
            lo = -(2 ** (2 ** w - 1))
            # an integer constant is "either signed or unsigned" (hugr-core ConstInt): negative values down to
            # -2^(N-1) are constants of the width too, stored as their two's complement
            return ["int", w, r.choice([0, hi, r.randint(0, hi), r.randint(0, hi), -1, lo, r.randint(lo, -1)])]
        if k == "float":
            return ["float", r.choice([0.0, -0.0, 1.5, -2.25, 1e300, 5e-324, 3.0])]
        if k == "string":
            return ["string", r.choice(["", "hello", "ünïcødé ✓", "a\"b\\c", "line\nbreak", " lead and trail \n"])]
        if k == "array":
            return ["array", t[2], [self.value(t[2], depth - 1) for _ in range(t[1])]]
        if k in ("list", "sarray"):
            n = r.randint(0, 3) if constable(t[1]) and depth > 0 else 0
            vs = [self.value(t[1], depth - 1) for _ in range(n)]
            if k == "list":
                return ["list", t[1], vs]
            return ["sarray", t[1], vs, r.choice(["arr", "", "näme"])]
        if k == "func":
            f = {"ins": t[1], "perm": _func_perm(t[1], t[2]), "reqs": list(t[3]),
                 "root": "defn" if not t[3] and r.random() < 0.3 else "dfg"}
            if r.random() < 0.5:
                # node metadata inside the body of the function value
                f["md"] = {"root": {"name": "body", "k": [1, None]}, "input": {"m": r.randint(0, 9)}}
            return ["func", f]
        raise AssertionError(t)

    def extv(self, t):
        """a custom constant (raw val.Extension) of the copyable type t with an arbitrary JSON payload"""
        r = self.r
        pay = r.choice([None, 0, -3, 2.5, "", "päy", [], [1, None, "x"], {}, {"a": None, "b": [1, {"c": False}]},
                        True, {"v": {"v": None}},
                        # (user data may spell the format's own field names, present and past)
                        {"extension_reqs": ["a"], "runtime_reqs": ["b"]}, [{"extension_reqs": 1}],
                        {"input_extensions": None, "t": "Q", "op": "Module", "parent": 0}])
        return ["extv", r.choice(["MyConst", "c", "Ünï", "ConstInt2"]), t, pay,
                r.sample(["prelude", "verif.test", "x.y"], r.randint(0, 2))]

    def const_type(self, depth=2, allow_func=True):
        """A random constable, copyable type descriptor."""
        r = self.r
        leaves = [["unit"], ["bool"], ["usum", r.choice([3, 3, 4, 5, 9])], ["int", r.randint(0, 6)], ["float"], ["string"]]
        if depth <= 0:
            return r.choice(leaves)
        k = r.choice(["leaf", "leaf", "tuple", "option", "either", "sum", "array", "list", "sarray",
                      "func" if allow_func else "leaf"])
        d = depth - 1
        row = lambda n=2: [self.const_type(d, allow_func) for _ in range(r.randint(0, n))]  # noqa: E731
        if k == "leaf":
            return r.choice(leaves)
        if k == "tuple":
            return ["tuple", row(3)]
        if k == "option":
            return ["option", row()]
        if k == "either":
            return ["either", row(), row()]
        if k == "sum":
            return ["sum", [row() for _ in range(r.randint(1, 3))]]
        if k == "array":
            return ["array", r.randint(0, 3), self.const_type(d, allow_func)]
        if k == "list":
            return ["list", self.const_type(d, allow_func)]
        if k == "sarray":
            return ["sarray", self.const_type(d, allow_func)]
        ins = row(3)
        perm = [r.randrange(len(ins)) for _ in range(r.randint(0, 3))] if ins else []
        return ["func", ins, [ins[i] for i in perm],
                r.sample(["prelude", "arithmetic.int", "verif.test", "x"], r.choice([0, 0, 1, 2]))]


class VBuilder:
    def __init__(self, tb, one_shot=False):
        self.tb = tb  # types.Builder
        #: hand the `Iterable` parameters of the helper constructors one-shot iterators / generators
        self.one_shot = one_shot

    def it(self, xs):
        xs = list(xs)
        if not self.one_shot:
            return xs
        return (x for x in xs) if len(xs) % 2 else iter(xs)

    def func_hugr(self, f):
        from hugr.build import Dfg

        from hugr import ops
        from hugr.build.dfg import DfBase, Function

        tys_in = [self.tb.ty(t) for t in f["ins"]]
        if f.get("root") == "defn":
            d = Function("fv", tys_in)
        elif f.get("reqs"):
            d = DfBase(ops.DFG(tys_in, None, list(f["reqs"])))
        else:
            d = Dfg(*tys_in)
        ins = d.inputs()
        d.set_outputs(*[ins[i] for i in f["perm"]])
        md = f.get("md")
        if md:
            d.hugr[d.hugr.root].metadata.update(md.get("root", {}))
            d.hugr[d.input_node].metadata.update(md.get("input", {}))
        return d.hugr

    def val(self, v):
        """the value object of a descriptor; equal composite sub-descriptors of one builder are ONE object every other
        time (the same value object at two positions of a tuple, an array, a sum)"""
        if v[0] in ("sum", "tuple", "some", "left", "right", "int", "array", "list") and not self.one_shot:
            key = repr(v)
            if len(key) % 2 == 0:
                memo = self.__dict__.setdefault("_val_memo", {})
                if key not in memo:
                    memo[key] = self._val(v)
                return memo[key]
        return self._val(v)

    def _val(self, v):
        from hugr import val

        k = v[0]
        B = self.tb
        if k == "sum":
            from hugr import tys

            rows = v[2]
            typ = tys.Sum([B.row(r) for r in rows])
            if len(repr(v)) % 2:
                # the declared type handed over as the sugar object that denotes the same sum
                if rows and all(not r for r in rows):
                    typ = tys.UnitSum(len(rows))
                elif len(rows) == 1:
                    typ = tys.Tuple(*B.row(rows[0]))
                elif len(rows) == 2 and not rows[0]:
                    typ = tys.Option(*B.row(rows[1]))
                elif len(rows) == 2:
                    typ = tys.Either(B.row(rows[0]), B.row(rows[1]))
            return val.Sum(v[1], typ, [self.val(x) for x in v[3]])
        if k == "unitsum":
            return val.UnitSum(v[1], v[2])
        if k == "unit":
            return val.Unit
        if k == "true":
            return val.bool_value(True) if self.one_shot else val.TRUE
        if k == "false":
            return val.bool_value(False) if self.one_shot else val.FALSE
        if k == "tuple":
            return val.Tuple(*[self.val(x) for x in v[1]])
        if k == "some":
            return val.Some(*[self.val(x) for x in v[1]])
        if k == "none":
            return val.None_(*B.row(v[1]))
        if k == "left":
            return val.Left(self.it(self.val(x) for x in v[1]), self.it(B.row(v[2])))
        if k == "right":
            return val.Right(self.it(B.row(v[1])), self.it(self.val(x) for x in v[2]))
        if k == "int":
            from hugr.std.int import IntVal

            # (width 5 is the documented default of the constructor: left out every other time)
            return IntVal(v[2]) if v[1] == 5 and v[2] % 2 == 0 else IntVal(v[2], v[1])
        if k == "float":
            from hugr.std.float import FloatVal

            return FloatVal(v[1])
        if k == "string":
            from hugr.std.prelude import StringVal

            return StringVal(v[1])
        if k == "array":
            from hugr.std.collections.array import ArrayVal

            return ArrayVal([self.val(x) for x in v[2]], B.ty(v[1]))
        if k == "list":
            from hugr.std.collections.list import ListVal

            return ListVal([self.val(x) for x in v[2]], B.ty(v[1]))
        if k == "sarray":
            from hugr.std.collections.static_array import StaticArrayVal

            return StaticArrayVal([self.val(x) for x in v[2]], B.ty(v[1]), v[3])
        if k == "func":
            return val.Function(self.func_hugr(v[1]))
        if k == "extv":
            return val.Extension(v[1], B.ty(v[2]), v[3], list(v[4]))
        raise AssertionError(v)
