"""Generator and executor of mutation histories over hugr.Hugr (C04; reused by C02/C03/C08).

A history is a JSON list of steps over symbolic node handles (the k-th node ever created by
the history is handle k; handle 0 is the root):
  ["add_node", parent_h, num_outs|null, metadata|null]   ["add_const", parent_h]
  ["add_link", src_h, src_off, dst_h, dst_off]          ["add_order_link", src_h, dst_h]
  ["delete_link", src_h, src_off, dst_h, dst_off]       ["delete_node", h]   (leaves only)
  ["insert", parent_h, SUB_HISTORY]                      (insert_hugr of the HUGR SUB builds)
"""

from __future__ import annotations

OFFS = (0, 0, 1, 1, 2, 3)


class GenState:
    """abstract shadow used only to choose applicable steps"""

    def __init__(self):
        self.parent = {0: None}
        self.children = {0: []}
        self.links: list[tuple] = []
        self.n = 1

    def live(self):
        return list(self.parent)

    def leaves(self):
        return [h for h in self.parent if h != 0 and not self.children[h]]

    def add(self, parent):
        h = self.n
        self.n += 1
        self.parent[h] = parent
        self.children[h] = []
        self.children[parent].append(h)
        return h

    def delete(self, h):
        self.children[self.parent[h]].remove(h)
        del self.parent[h], self.children[h]
        self.links = [l for l in self.links if l[0] != h and l[2] != h]


def gen_history(r, max_steps=30, max_nodes=8, allow_insert=True, depth=0, metadata=False, mixed=False):
    """mixed=True (C04 only: the store is a plain port multigraph) also links an order port to a value port
    and creates constants of several values with metadata"""
    st = GenState()
    hist = []
    nsteps = r.randint(3, max_steps)
    for _ in range(nsteps):
        live = st.live()
        p = r.random()
        if (p < 0.22 and len(live) < max_nodes) or len(live) < 2:
            parent = r.choice(live) if r.random() < 0.4 else 0
            md = {"k": r.choice([1, "v", [1, 2], None])} if metadata and r.random() < 0.4 else None
            if r.random() < 0.12:
                if mixed:
                    hist.append(["add_const", parent, r.randrange(4),
                                 {"c": r.choice([0, "x", None])} if r.random() < 0.5 else None])
                else:
                    hist.append(["add_const", parent])
            else:
                hist.append(["add_node", parent, r.choice([None, None, 0, 1, 3]), md])
            st.add(parent)
        elif p < 0.55:
            s, t = r.choice(live), r.choice(live)
            if r.random() < 0.12:
                hist.append(["add_link", s, -1, t, -1])
                st.links.append((s, -1, t, -1))
            elif mixed and r.random() < 0.08:
                so, to = r.choice([(-1, r.choice(OFFS)), (r.choice(OFFS), -1)])
                hist.append(["add_link", s, so, t, to])
                st.links.append((s, so, t, to))
            else:
                # collision-heavy: reuse an existing source / target port most of the time
                if st.links and r.random() < 0.6:
                    l = r.choice(st.links)
                    if l[1] >= 0:
                        if r.random() < 0.5:
                            s, so, to = l[0], l[1], r.choice(OFFS)
                        else:
                            t, to, so = l[2], l[3], r.choice(OFFS)
                        if r.random() < 0.3:
                            s, so, t, to = l
                    else:
                        so, to = r.choice(OFFS), r.choice(OFFS)
                else:
                    so, to = r.choice(OFFS), r.choice(OFFS)
                hist.append(["add_link", s, so, t, to])
                st.links.append((s, so, t, to))
        elif p < 0.62:
            s, t = r.choice(live), r.choice(live)
            hist.append(["add_order_link", s, t])
            if (s, -1, t, -1) not in st.links:
                st.links.append((s, -1, t, -1))
        elif p < 0.82:
            if st.links and r.random() < 0.85:
                l = r.choice(st.links)
                st.links.remove(l)
                hist.append(["delete_link", *l])
            else:
                hist.append(["delete_link", r.choice(live), r.choice(OFFS), r.choice(live), r.choice(OFFS)])
                l = tuple(hist[-1][1:])
                if l in st.links:
                    st.links.remove(l)
        elif p < 0.93:
            lv = st.leaves()
            if lv:
                h = r.choice(lv)
                if r.random() < 0.3 and len(live) >= 3:
                    # the node to be deleted first gets several links on ONE of its input ports (state-order links from
                    # different nodes; with `mixed` also value links sharing the offset)
                    srcs = r.sample([x for x in live if x != h], min(len(live) - 1, r.randint(2, 3)))
                    for s_ in srcs:
                        if mixed and r.random() < 0.4:
                            hist.append(["add_link", s_, r.choice(OFFS), h, 0])
                            st.links.append((s_, hist[-1][2], h, 0))
                        else:
                            hist.append(["add_order_link", s_, h])
                            if (s_, -1, h, -1) not in st.links:
                                st.links.append((s_, -1, h, -1))
                hist.append(["delete_node", h])
                st.delete(h)
        elif allow_insert and depth == 0 and len(live) < max_nodes:
            sub = gen_history(r, max_steps=10, max_nodes=5, allow_insert=False, depth=1, metadata=metadata,
                              mixed=mixed)
            parent = r.choice(live)
            hist.append(["insert", parent, sub])
            # the inserted nodes get handles in the order the sub-hugr iterates them; the shadow
            # cannot know that order after deletions, so it only reserves the handle numbers
            # (the executor appends handles for inserted nodes in mapping order)
            cnt = _live_count(sub)
            base = None
            for i in range(cnt):
                h = st.add(parent if i == 0 else base)
                if i == 0:
                    base = h
            # links of the inserted part are unknown to the shadow; that only makes later
            # delete_link choices on them less likely, not wrong
    if depth == 0 and r.random() < 0.35:
        # end on a burst of deletions in arbitrary (not ascending) index order, with no node added afterwards:
        # several free slots, with live nodes between them, at the moment the HUGR is observed / serialized
        for _ in range(r.randint(2, 4)):
            lv = st.leaves()
            if not lv:
                break
            h = r.choice(lv)
            hist.append(["delete_node", h])
            st.delete(h)
    return hist


def _live_count(hist):
    n = 1
    for step in hist:
        if step[0] in ("add_node", "add_const"):
            n += 1
        elif step[0] == "delete_node":
            n -= 1
    return n


def hist_sig(k):
    """(input row, output row) of the k-th operation a history creates: four ports each way whose types rotate with
    k, so that two nodes that held the same index one after the other differ on every port"""
    from hugr import tys

    pool = [tys.Bool, tys.Unit, tys.Qubit, tys.USize(), tys.Tuple(tys.Bool, tys.Unit)]
    return ([pool[(k + i) % 5] for i in range(4)], [pool[(k + 2 * i + 1) % 5] for i in range(4)])


_AS_NODE: list = []


def as_node(n):
    """an object implementing hugr's ToNode protocol around node n (not itself a Node)"""
    if not _AS_NODE:
        from hugr.hugr.node_port import ToNode

        class Wrapped(ToNode):
            def __init__(self, node):
                self._n = node

            def to_node(self):
                return self._n

            @property
            def idx(self):     # (convenience for the HARNESS's own bookkeeping only)
                return self._n.idx

        _AS_NODE.append(Wrapped)
    return _AS_NODE[0](n)


class Exec:
    """Runs a history on a real Hugr and on the model in lock-step."""

    _serial = 0

    def __init__(self, on_step=None, root_op=None):
        from hugr import Hugr
        from vf.oracles.store import Model

        self.h = Hugr(root_op) if root_op is not None else Hugr()
        self.m = Model(type(self.h[self.h.root].op).__name__)
        self.handles = [self.h.root]
        self.on_step = on_step
        self.ended = None
        self.opn = 0
        self.dead: set[int] = set()
        self.valid_ports_only = False
        Exec._serial += 1
        self.serial = Exec._serial   # distinguishes the op names of different executors deterministically

    def node(self, k):
        """the node in one of the spellings a caller may hold it in, taken in turn: the handle the graph returned, a
        bare Node(idx), the handle iteration yields, the one its parent's children() lists, one carrying other extras.
        They are the same node to every store call (handles compare by index only)."""
        from hugr import Node

        base = self.handles[k]
        self.uses = getattr(self, "uses", 0) + 1
        how = self.uses % 6
        if how == 5:
            # something that merely CAN be treated as a node (what the builders are): only to_node() says which
            return as_node(base)
        if how == 1:
            return Node(base.idx)
        if how == 2:
            return next((n for n in self.h if n.idx == base.idx), base)
        if how == 3:
            try:
                p = self.h[base].parent
            except KeyError:
                return base
            if p is not None:
                return next((c for c in self.h.children(p) if c.idx == base.idx), base)
        if how == 4:
            try:
                return Node(base.idx, {"other": "metadata"}, 7)
            except TypeError:
                return base
        return base

    def step(self, st):
        from hugr import ops, tys, val

        h, m = self.h, self.m
        k = st[0]
        if k == "add_node":
            self.opn += 1
            name = f"op{self.serial}_{self.opn}"
            op = ops.Custom(name, tys.FunctionType(*hist_sig(self.opn)), extension="hist")
            kw = {}
            if st[2] is not None:
                kw["num_outs"] = st[2]
            if st[3] is not None:
                kw["metadata"] = dict(st[3])
            n = h.add_node(op, self.node(st[1]), **kw)
            m.add_node(n.idx, name, self.node(st[1]).idx, st[2], st[3])
            self.handles.append(n)
        elif k == "add_const":
            if len(st) > 2:
                v = [val.TRUE, val.FALSE, val.Unit, val.Tuple(val.TRUE, val.Unit)][st[2]]
                kw = {"metadata": dict(st[3])} if st[3] is not None else {}
                n = h.add_const(v, self.node(st[1]), **kw)
                m.add_node(n.idx, "Const", self.node(st[1]).idx, None, st[3])
                if h[n].op.val != v:
                    raise AssertionError(f"add_const stored {h[n].op.val!r} for {v!r}")
            else:
                n = h.add_const(val.TRUE, self.node(st[1]))
                m.add_node(n.idx, "Const", self.node(st[1]).idx, None)
            self.handles.append(n)
        elif k == "add_link":
            s, t = self.node(st[1]), self.node(st[3])
            if self.valid_ports_only and not (_port_exists(h, s, st[2], "out")
                                              and _port_exists(h, t, st[4], "in")):
                return
            h.add_link(s.out(st[2]), t.inp(st[4]))
            m.add_link(s.idx, st[2], t.idx, st[4])
        elif k == "add_order_link":
            s, t = self.node(st[1]), self.node(st[2])
            if self.valid_ports_only and not (_port_exists(h, s, -1, "out")
                                              and _port_exists(h, t, -1, "in")):
                return
            h.add_order_link(s, t)
            m.add_order_link(s.idx, t.idx)
        elif k == "delete_link":
            s, t = self.node(st[1]), self.node(st[3])
            h.delete_link(s.out(st[2]), t.inp(st[4]))
            m.delete_link(s.idx, st[2], t.idx, st[4])
        elif k == "delete_node":
            n = self.node(st[1])
            before = h[n]
            self.deleted = (before, h.delete_node(n))
            m.delete_node(n.idx)
            self.dead.add(st[1])
        elif k == "insert":
            from hugr.exceptions import ParentBeforeChild

            sub = Exec()
            for s2 in st[2]:
                sub.step(s2)
            parent = self.node(st[1])
            try:
                if parent.idx == h.root.idx and len(st[2]) % 2:
                    mapping = h.insert_hugr(sub.h)   # "parent: defaults to the root"
                else:
                    mapping = h.insert_hugr(sub.h, parent)
            except ParentBeforeChild:
                self.ended = "ParentBeforeChild"
                return
            mp = {a.idx: b.idx for a, b in mapping.items()}
            m.insert(sub.m, mp, parent.idx)
            for b in sorted(sub.m.nodes):
                self.handles.append(mapping[_node(b)])
            self.last_insert = (sub, mapping)
        else:
            raise AssertionError(st)

    def run(self, hist):
        for i, st in enumerate(hist):
            if not self.applicable(st):
                continue
            self.step(st)
            if self.ended:
                break
            if self.on_step is not None:
                self.on_step(self, i, st)
        return self

    def applicable(self, st):
        """skip steps that name handles which do not exist or are dead (after an insert the shadow's
        handle numbering can be ahead of the executor's)"""
        k = st[0]
        refs = {"add_node": [1], "add_const": [1], "add_link": [1, 3], "add_order_link": [1, 2],
                "delete_link": [1, 3], "delete_node": [1], "insert": [1]}[k]
        for i in refs:
            # the handle must exist and still denote the node it was created for (index reuse!)
            if st[i] >= len(self.handles) or st[i] in self.dead:
                return False
        if k == "delete_node":
            n = self.handles[st[1]].idx
            if n == 0 or self.m.nodes[n]["children"]:
                return False
        return True


def _node(i):
    from hugr import Node

    return Node(i)


def _port_exists(h, node, off, direction):
    """does the op of `node` have this port, judged on its serialized form (wire port table)?"""
    from vf.oracles import wire
    from vf.oracles.observe import enc_op

    try:
        ports = wire.op_ports({"parent": 0, **enc_op(h[node].op)})
    except Exception:  # noqa: BLE001
        return False
    if off == -1:
        return ports["other_" + direction] == "order"
    return 0 <= off < len(ports[direction])


def apply_history(h, hist, valid_ports_only=False, probe=None):
    """Apply a history to an existing real Hugr (no model): handle k = k-th node of h in iteration
    order at the start, then nodes in creation order.  Steps that name missing/dead handles or would
    delete a non-leaf are skipped (with valid_ports_only also links to ports the ops do not have).
    Returns the number of applied steps."""
    from hugr import ops, tys, val
    from hugr.exceptions import ParentBeforeChild

    handles = list(h)
    dead: set[int] = set()
    applied = 0
    opn = 0

    def ok(*ks):
        return all(k < len(handles) and k not in dead for k in ks)

    for st in hist:
        k = st[0]
        if k == "add_node" and ok(st[1]):
            opn += 1
            op = ops.Custom(f"hop{opn}", tys.FunctionType([tys.Bool] * 4, [tys.Bool] * 4), extension="hist")
            kw = {}
            if st[2] is not None:
                kw["num_outs"] = st[2]
            if st[3] is not None:
                kw["metadata"] = dict(st[3])
            handles.append(h.add_node(op, handles[st[1]], **kw))
        elif k == "add_const" and ok(st[1]):
            handles.append(h.add_const(val.TRUE, handles[st[1]]))
        elif k == "add_link" and ok(st[1], st[3]):
            if valid_ports_only and not (_port_exists(h, handles[st[1]], st[2], "out")
                                         and _port_exists(h, handles[st[3]], st[4], "in")):
                continue
            h.add_link(handles[st[1]].out(st[2]), handles[st[3]].inp(st[4]))
        elif k == "add_order_link" and ok(st[1], st[2]):
            if valid_ports_only and not (_port_exists(h, handles[st[1]], -1, "out")
                                         and _port_exists(h, handles[st[2]], -1, "in")):
                continue
            h.add_order_link(handles[st[1]], handles[st[2]])
        elif k == "delete_link" and ok(st[1], st[3]):
            h.delete_link(handles[st[1]].out(st[2]), handles[st[3]].inp(st[4]))
        elif k == "delete_node" and ok(st[1]):
            n = handles[st[1]]
            if n.idx == h.root.idx or h.children(n):
                continue
            h.delete_node(n)
            dead.add(st[1])
        elif k == "insert" and ok(st[1]):
            sub = Exec()
            sub.valid_ports_only = valid_ports_only
            for s2 in st[2]:
                if sub.applicable(s2):
                    sub.step(s2)
            try:
                if handles[st[1]].idx == h.root.idx and len(st[2]) % 2:
                    mapping = h.insert_hugr(sub.h)   # "parent: defaults to the root"
                else:
                    mapping = h.insert_hugr(sub.h, handles[st[1]])
            except ParentBeforeChild:
                return applied
            handles.extend(mapping[n] for n in sub.h)
        elif k == "probe":
            # an explicit query point inside the history (serialization: a pure query)
            try:
                h.to_json()
            except Exception:  # noqa: BLE001
                pass
            continue
        else:
            continue
        applied += 1
        if probe is not None and applied % 2 == 0:
            # the HUGR is queried (serialized, rendered, exported ...) in the middle of its history: a pure query,
            # whatever it computes must not be there to go stale when the history goes on
            try:
                probe()
            except Exception:  # noqa: BLE001  (what the query itself does is judged elsewhere)
                pass
    return applied


def gen_probe_history(r):
    """serialize while an index is free, re-use it, delete elsewhere, serialize again (and so on): the free indices
    move between two queries while their number stays the same"""
    n = r.randint(3, 6)
    hist = [["add_node", 0, r.choice([None, 1, 2]), None] for _ in range(n)]
    live = list(range(1, n + 1))
    nxt = n + 1
    for k in range(1, n):
        if r.random() < 0.7:
            hist.append(["add_link", r.choice(live), 0, r.choice(live), 0])
    for _ in range(r.randint(1, 3)):
        a = r.choice(live)
        live.remove(a)
        hist.append(["delete_node", a])
        hist.append(["probe"])
        hist.append(["add_node", 0, 1, None])
        live.append(nxt)
        nxt += 1
        if len(live) > 1:
            b = r.choice(live[:-1])
            live.remove(b)
            hist.append(["delete_node", b])
        if r.random() < 0.5:
            hist.append(["add_link", r.choice(live), 0, r.choice(live), 1])
        if r.random() < 0.4:
            hist.append(["probe"])
    return hist


def gen_sparse_history(r):
    """many nodes, most of them deleted again and none of the freed indices re-used: the survivors' indices are few
    and far apart (0, 3, 9, 33 ...), with links among them"""
    n = r.randint(10, 45)
    hist = [["add_node", 0, r.choice([None, 1, 2]), {"k": k} if k % 7 == 0 else None] for k in range(n)]
    keep = sorted(r.sample(range(1, n + 1), r.randint(2, 6)))
    for a in keep:
        for b in keep:
            if a != b and r.random() < 0.4:
                hist.append(["add_link", a, r.randrange(2), b, r.randrange(2)])
    dead = [h for h in range(1, n + 1) if h not in keep]
    r.shuffle(dead)
    hist += [["delete_node", h] for h in dead]
    if r.random() < 0.5:
        hist.append(["probe"])
        hist.append(["add_order_link", keep[0], keep[-1]])
    return hist


def gen_history_on(r, n_existing, max_steps=20, metadata=True):
    """history whose steps also address the n_existing nodes a HUGR already has"""
    hist = gen_history(r, max_steps=max_steps, max_nodes=8, metadata=metadata)
    if n_existing <= 1:
        return hist
    out = []
    for st in hist:
        st = list(st)
        refs = {"add_node": [1], "add_const": [1], "add_link": [1, 3], "add_order_link": [1, 2],
                "delete_link": [1, 3], "delete_node": [1], "insert": [1]}[st[0]]
        for i in refs:
            # handle 0 (root) stays; others are shifted behind the existing nodes, and with some
            # probability redirected to an existing node
            if st[i] != 0:
                st[i] = st[i] + n_existing - 1 if r.random() < 0.6 else r.randrange(n_existing)
        out.append(st)
    return out
