"""Extension descriptors (JSON), generator and builder (C10, C09, C03).

{"name": s, "version": semver string, "reqs": [s..],
 "types": [DEF..]            DEF as in vf/gen/types.py plus "description" and "ext" = name
 "ops":   [{"name", "description", "misc", "params": [param..], "body": func desc | null, "binary": b}]
 "values": [{"name", "ty": type desc, "val": value desc}]}"""

from __future__ import annotations

from .types import Gen
from .values import VGen, constable

#: free text: also texts that a tidy-up (strip, dedent, cleandoc, whitespace collapsing) would change
DESCS = ["", "does things", "λ", "  two leading spaces\n    and an indented line\n", "\ttab first", "\n\nblank lines first",
         "trailing \n\n", "a  b"]
NAMES = ["my.ext", "a", "verif.gen", "ünï.ext", "x.y.z"]
VERSIONS = ["0.1.0", "1.2.3", "10.0.7", "1.0.0-alpha", "1.0.0-rc.1+build.5", "2.1.0+exp.sha.5114f85", "0.0.0"]
REQS = ["prelude", "arithmetic.int.types", "other.ext", "ünï"]


def gen_extension(r, name=None, small=False):
    name = name or r.choice(NAMES)
    reqs = sorted(r.sample(REQS, r.randint(0, 3)))
    if r.random() < 0.2:
        reqs = sorted({*reqs, name})     # an extension may list itself among its requirements
    e = {"name": name, "version": r.choice(VERSIONS), "reqs": reqs,
         "types": [], "ops": [], "values": []}
    g = Gen(r, allow_vars=False, allow_ext=False)
    # a quarter of the extensions use ONE pool of names for their types, operations and values: the three
    # tables are separate namespaces, so a type and an operation may carry the same name
    shared = r.random() < 0.25
    e["shared_names"] = shared
    for i in range(r.randint(0, 2 if small else 4)):
        g2 = Gen(r, allow_vars=False)
        df = dict(g2.typedef())
        df["name"] = f"n{i}" if shared else f"T{i}"
        df["ext"] = name
        df["description"] = r.choice(["", "a type", "ünï ✓", " padded type \n", "\n  indented\n    more"])
        e["types"].append(df)
    for i in range(r.randint(0, 2 if small else 4)):
        k = r.choice(["mono", "poly", "binary", "own-type"])
        op = {"name": f"n{i}" if shared else f"op{i}" if r.random() < 0.8 else f"Op.{i}", "description": r.choice(DESCS),
              "misc": {}, "params": [], "body": None, "binary": False}
        if r.random() < 0.4:
            op["misc"] = {"k": r.choice([1, "v", [1, {"a": None}], 2.5, True])}
        if k == "binary":
            op["binary"] = True
        elif k == "mono":
            op["body"] = g.func(1)
            op["binary"] = r.random() < 0.25   # a static type scheme *and* the binary flag
        elif k == "poly":
            from .types import gen_poly

            params, body, _, _ = gen_poly(r, g, 1, force_poly=True)
            op["params"], op["body"] = params, body
        else:
            tys = [["ext", df, [g.arg_for(p, 1) for p in df["params"]]] for df in e["types"]
                   if all(p[0] != "E" or True for p in df["params"])]
            row = tys[:2] if tys else [["bool"]]
            op["body"] = ["func", row, list(reversed(row)), []]
        if op["body"] is not None and op["body"][3] and r.random() < 0.3:
            # a requirement named twice (two signatures' lists concatenated): still a set that lacks the owner
            b = list(op["body"])
            b[3] = [*b[3], r.choice(b[3])]
            op["body"] = b
            op["dup_req"] = True
        e["ops"].append(op)
    vg = VGen(r)
    for i in range(r.randint(0, 1 if small else 3)):
        t = vg.const_type(2, allow_func=False)
        if constable(t):
            e["values"].append({"name": f"n{i}" if shared else f"v{i}", "ty": t, "val": vg.value(t, 3)})
    return e


def build_extension(e, eager=False):
    """eager: the extension is serialized after every single addition (a document asked for while the extension is
    still growing must not freeze anything: the final document reflects everything that was added)"""
    from hugr import ext, tys
    from semver import Version

    from .types import Builder
    from .values import VBuilder

    x = ext.Extension(e["name"], Version.parse(e["version"]), set(e["reqs"]))
    B = Builder(extension=x)
    for df in e["types"]:
        td = B.typedef(df)
        td.description = df.get("description", "")
        if eager:
            x.to_json()
    for op in e["ops"]:
        if op["body"] is None:
            sig = ext.OpDefSig(None, binary=True)
        else:
            sig = ext.OpDefSig(tys.PolyFuncType([B.param(p) for p in op["params"]], B.func(op["body"])),
                               binary=op["binary"])
        x.add_op_def(ext.OpDef(op["name"], sig, op["description"], dict(op["misc"])))
        if eager:
            x.to_json()
    vb = VBuilder(B)
    for v in e["values"]:
        if eager:
            x.to_json()
        x.add_extension_value(ext.ExtensionValue(v["name"], vb.val(v["val"])))
    return x
