"""Type / param / arg descriptors (plain JSON), their generator, the builder that turns a
descriptor into `hugr.tys` objects, and — independently of the library — the expected wire
JSON and the reference bound.

Descriptors
  type : ["unit"] ["bool"] ["usum",n] ["sum",[[t..]..]] ["tuple",[t..]] ["option",[t..]]
         ["either",[t..],[t..]] ["qubit"] ["usize"] ["var",i,b] ["rowvar",i,b] ["alias",name,b]
         ["func",[t..],[t..],[req..]] ["opaque",ext,id,[arg..],b]
         ["int",w] ["float"] ["string"] ["array",n,t] ["list",t] ["sarray",t]
         ["ext",DEF,[arg..]]   DEF = {"name":s,"params":[param..],"bound":["explicit",b]|["from",[i..]]}
  arg  : ["t",type] ["n",k] ["s",str] ["seq",[arg..]] ["exts",[name..]] ["varg",i,param]
  param: ["T",b] ["N",ub|null] ["S"] ["L",param] ["Tup",[param..]] ["E"]
b in {"C","A"}.
"""

from __future__ import annotations

HEXT = "verif.test"

# ----------------------------------------------------------------------------- reference bound


def join(bs):
    return "A" if any(b == "A" for b in bs) else "C"


def ref_bound(d) -> str:
    k = d[0]
    if k in ("unit", "bool", "usum", "usize", "func", "int", "float", "string"):
        return "C"
    if k == "qubit":
        return "A"
    if k == "sum":
        return join(ref_bound(t) for row in d[1] for t in row)
    if k in ("tuple", "option"):
        return join(ref_bound(t) for t in d[1])
    if k == "either":
        return join(ref_bound(t) for t in d[1] + d[2])
    if k in ("var", "rowvar", "alias"):
        return d[2]
    if k == "opaque":
        return d[4]
    if k == "array":
        return ref_bound(d[2])
    if k in ("list", "sarray"):
        return ref_bound(d[1])
    if k == "ext":
        df, args = d[1], d[2]
        if df["bound"][0] == "explicit":
            return df["bound"][1]
        return join(ref_bound(args[i][1]) for i in df["bound"][1] if args[i][0] == "t")
    raise AssertionError(d)


def depth(d) -> int:
    k = d[0]
    subs = []
    if k == "sum":
        subs = [t for row in d[1] for t in row]
    elif k in ("tuple", "option"):
        subs = d[1]
    elif k == "either":
        subs = d[1] + d[2]
    elif k == "func":
        subs = d[1] + d[2]
    elif k == "array":
        subs = [d[2]]
    elif k in ("list", "sarray"):
        subs = [d[1]]
    elif k in ("opaque", "ext"):
        args = d[3] if k == "opaque" else d[2]
        subs = list(_arg_types(args))
    return 1 + max((depth(s) for s in subs), default=0)


def _arg_types(args):
    for a in args:
        if a[0] == "t":
            yield a[1]
        elif a[0] == "seq":
            yield from _arg_types(a[1])


# ----------------------------------------------------------------------------- expected wire JSON


def wire_param(p):
    k = p[0]
    if k == "T":
        return {"tp": "Type", "b": p[1]}
    if k == "N":
        return {"tp": "BoundedNat", "bound": p[1]}
    if k == "S":
        return {"tp": "String"}
    if k == "L":
        return {"tp": "List", "param": wire_param(p[1])}
    if k == "Tup":
        return {"tp": "Tuple", "params": [wire_param(x) for x in p[1]]}
    if k == "E":
        return {"tp": "Extensions"}
    raise AssertionError(p)


def wire_arg(a):
    k = a[0]
    if k == "t":
        return {"tya": "Type", "ty": wire_ty(a[1])}
    if k == "n":
        return {"tya": "BoundedNat", "n": a[1]}
    if k == "s":
        return {"tya": "String", "arg": a[1]}
    if k == "seq":
        return {"tya": "Sequence", "elems": [wire_arg(x) for x in a[1]]}
    if k == "exts":
        return {"tya": "Extensions", "es": list(a[1])}
    if k == "varg":
        return {"tya": "Variable", "idx": a[1], "cached_decl": wire_param(a[2])}
    raise AssertionError(a)


def wire_row(row):
    return [wire_ty(t) for t in row]


def wire_func(d):
    return {"t": "G", "input": wire_row(d[1]), "output": wire_row(d[2]),
            "runtime_reqs": list(d[3])}


STD_EXT = {"int": "arithmetic.int.types", "float": "arithmetic.float.types", "string": "prelude",
           "array": "collections.array", "list": "collections.list",
           "sarray": "collections.static_array"}


def wire_ty(d):
    k = d[0]
    if k == "unit":
        return {"t": "Sum", "s": "Unit", "size": 1}
    if k == "bool":
        return {"t": "Sum", "s": "Unit", "size": 2}
    if k == "usum":
        return {"t": "Sum", "s": "Unit", "size": d[1]}
    if k == "sum":
        return {"t": "Sum", "s": "General", "rows": [wire_row(r) for r in d[1]]}
    if k == "tuple":
        return {"t": "Sum", "s": "General", "rows": [wire_row(d[1])]}
    if k == "option":
        return {"t": "Sum", "s": "General", "rows": [[], wire_row(d[1])]}
    if k == "either":
        return {"t": "Sum", "s": "General", "rows": [wire_row(d[1]), wire_row(d[2])]}
    if k == "qubit":
        return {"t": "Q"}
    if k == "usize":
        return {"t": "I"}
    if k == "var":
        return {"t": "V", "i": d[1], "b": d[2]}
    if k == "rowvar":
        return {"t": "R", "i": d[1], "b": d[2]}
    if k == "alias":
        return {"t": "Alias", "bound": d[2], "name": d[1]}
    if k == "func":
        return wire_func(d)
    if k == "opaque":
        return {"t": "Opaque", "extension": d[1], "id": d[2],
                "args": [wire_arg(a) for a in d[3]], "bound": d[4]}
    if k == "int":
        return {"t": "Opaque", "extension": STD_EXT["int"], "id": "int",
                "args": [{"tya": "BoundedNat", "n": d[1]}], "bound": "C"}
    if k == "float":
        return {"t": "Opaque", "extension": STD_EXT["float"], "id": "float64", "args": [], "bound": "C"}
    if k == "string":
        return {"t": "Opaque", "extension": STD_EXT["string"], "id": "string", "args": [], "bound": "C"}
    if k == "array":
        return {"t": "Opaque", "extension": STD_EXT["array"], "id": "array",
                "args": [{"tya": "BoundedNat", "n": d[1]}, {"tya": "Type", "ty": wire_ty(d[2])}],
                "bound": ref_bound(d[2])}
    if k == "list":
        return {"t": "Opaque", "extension": STD_EXT["list"], "id": "List",
                "args": [{"tya": "Type", "ty": wire_ty(d[1])}], "bound": ref_bound(d[1])}
    if k == "sarray":
        return {"t": "Opaque", "extension": STD_EXT["sarray"], "id": "static_array",
                "args": [{"tya": "Type", "ty": wire_ty(d[1])}], "bound": ref_bound(d[1])}
    if k == "ext":
        return {"t": "Opaque", "extension": d[1].get("ext", HEXT), "id": d[1]["name"],
                "args": [wire_arg(a) for a in d[2]], "bound": ref_bound(d)}
    raise AssertionError(d)


# ----------------------------------------------------------------------------- builder


class Builder:
    """Turns descriptors into hugr objects.  One harness extension per Builder collects the
    generated TypeDefs (same name => same definition object)."""

    def __init__(self, opaque=False, extension=None):
        from hugr import ext

        self.ext = extension or ext.Extension(HEXT, ext.Version(0, 1, 0))
        self.exts = {self.ext.name: self.ext}
        self.defs = {}
        #: build every extension type in its opaque form (what decoding yields)
        self.opaque = opaque

    def _opaque(self, d):
        from hugr import tys

        w = wire_ty(d)
        args = d[2] if d[0] == "ext" else {
            "int": lambda: [["n", d[1]]], "float": lambda: [], "string": lambda: [],
            "array": lambda: [["n", d[1]], ["t", d[2]]], "list": lambda: [["t", d[1]]],
            "sarray": lambda: [["t", d[1]]]}[d[0]]()
        return tys.Opaque(id=w["id"], bound=self.bound(w["bound"]), args=[self.arg(a) for a in args],
                          extension=w["extension"])

    def bound(self, b):
        from hugr import tys

        return tys.TypeBound.Any if b == "A" else tys.TypeBound.Copyable

    def param(self, p):
        from hugr import tys

        k = p[0]
        if k == "T":
            return tys.TypeTypeParam(self.bound(p[1]))
        if k == "N":
            return tys.BoundedNatParam(p[1])
        if k == "S":
            return tys.StringParam()
        if k == "L":
            return tys.ListParam(self.param(p[1]))
        if k == "Tup":
            return tys.TupleParam([self.param(x) for x in p[1]])
        if k == "E":
            return tys.ExtensionsParam()
        raise AssertionError(p)

    def arg(self, a):
        from hugr import tys

        k = a[0]
        if k == "t":
            # every other type argument goes through the public helper Type.type_arg()
            self._targs = getattr(self, "_targs", 0) + 1
            t = self.ty(a[1])
            return t.type_arg() if self._targs % 2 else tys.TypeTypeArg(t)
        if k == "n":
            return tys.BoundedNatArg(a[1])
        if k == "s":
            return tys.StringArg(a[1])
        if k == "seq":
            return tys.SequenceArg([self.arg(x) for x in a[1]])
        if k == "exts":
            return tys.ExtensionsArg(list(a[1]))
        if k == "varg":
            return tys.VariableArg(a[1], self.param(a[2]))
        raise AssertionError(a)

    def row(self, r):
        return [self.ty(t) for t in r]

    def typedef(self, df):
        from hugr import ext

        ename = df.get("ext", HEXT)
        key = (ename, df["name"])
        if key in self.defs:
            return self.defs[key]
        if ename not in self.exts:
            self.exts[ename] = ext.Extension(ename, ext.Version(0, 1, 0))
        b = (ext.ExplicitBound(self.bound(df["bound"][1])) if df["bound"][0] == "explicit"
             else ext.FromParamsBound(list(df["bound"][1])))
        td = self.exts[ename].add_type_def(ext.TypeDef(
            name=df["name"], description="generated", params=[self.param(p) for p in df["params"]],
            bound=b))
        self.defs[key] = td
        return td

    def func(self, d):
        from hugr import tys

        return tys.FunctionType(self.row(d[1]), self.row(d[2]), list(d[3]))

    def ty(self, d, sugar=True):
        """the type object of a descriptor.  Equal sub-descriptors of one Builder are ONE object every other time (a
        type object used at several positions of an expression: aliasing must be harmless); composite kinds only."""
        if d[0] in ("sum", "tuple", "option", "either", "func", "array", "list", "ext", "opaque", "int") and not self.no_share:
            key = repr((d, sugar))
            if len(key) % 2 == 0:
                memo = self.__dict__.setdefault("_ty_memo", {})
                if key not in memo:
                    memo[key] = self._ty(d, sugar)
                return memo[key]
        return self._ty(d, sugar)

    no_share = False

    def _ty(self, d, sugar=True):
        from hugr import tys

        k = d[0]
        if k == "unit":
            return tys.Unit
        if k == "bool":
            return tys.Bool
        if k == "usum":
            return tys.UnitSum(d[1])
        if k == "sum":
            return tys.Sum([self.row(r) for r in d[1]])
        if k == "tuple":
            return tys.Tuple(*self.row(d[1]))
        if k == "option":
            return tys.Option(*self.row(d[1]))
        if k == "either":
            # (Either takes any Iterable of types for each side: one-shot generators every other time)
            l_, r_ = self.row(d[1]), self.row(d[2])
            if len(repr(d)) % 2:
                return tys.Either((t for t in l_), iter(r_))
            return tys.Either(l_, r_)
        if k == "qubit":
            return tys.Qubit
        if k == "usize":
            return tys.USize()
        if k == "var":
            return tys.Variable(d[1], self.bound(d[2]))
        if k == "rowvar":
            return tys.RowVariable(d[1], self.bound(d[2]))
        if k == "alias":
            return tys.Alias(d[1], self.bound(d[2]))
        if k == "func":
            return self.func(d)
        if k == "opaque":
            return tys.Opaque(id=d[2], bound=self.bound(d[4]), args=[self.arg(a) for a in d[3]],
                              extension=d[1])
        if self.opaque and k in ("int", "float", "string", "array", "list", "sarray", "ext"):
            return self._opaque(d)
        if k == "int":
            from hugr.std.int import int_t

            return int_t(d[1])
        if k == "float":
            from hugr.std.float import FLOAT_T

            return FLOAT_T
        if k == "string":
            from hugr.std.prelude import STRING_T

            return STRING_T
        if k == "array":
            from hugr.std.collections.array import Array

            return Array(self.ty(d[2]), d[1])
        if k == "list":
            from hugr.std.collections.list import List

            return List(self.ty(d[1]))
        if k == "sarray":
            from hugr.std.collections.static_array import StaticArray

            return StaticArray(self.ty(d[1]))
        if k == "ext":
            return self.typedef(d[1]).instantiate([self.arg(a) for a in d[2]])
        raise AssertionError(d)


# ----------------------------------------------------------------------------- generator

NAMES = ["Foo", "bar", "T", "λx", "a.b", ""]
REQS = ["prelude", "arithmetic.int", "verif.test", "x"]


class Gen:
    def __init__(self, rng, *, allow_vars=True, allow_linear=True, allow_rowvar=False,
                 allow_ext=True, allow_opaque=True, allow_sarray=True, copy_only=False, type_varg=False):
        self.r = rng
        #: also offer a variable ARGUMENT for a parameter of kind Type (the reference implementation spells that use
        #: as a type variable and calls the other spelling malformed, but it is schema-valid and the Python model
        #: builds it; only the codec checks ask for it)
        self.type_varg = type_varg
        self.allow_vars = allow_vars
        self.allow_linear = allow_linear and not copy_only
        self.allow_rowvar = allow_rowvar
        self.allow_ext = allow_ext
        self.allow_opaque = allow_opaque
        self.allow_sarray = allow_sarray
        self.copy_only = copy_only
        self._defs = {}

    def b(self):
        if self.copy_only:
            return "C"
        return self.r.choice(["C", "A"]) if self.allow_linear else "C"

    def row(self, depth, maxlen=3, in_row=True):
        n = self.r.choice([0, 1, 1, 2, 2, 3][: maxlen + 3])
        out = [self.ty(depth) for _ in range(n)]
        if in_row and self.allow_rowvar and self.r.random() < 0.15:
            out.insert(self.r.randint(0, len(out)), ["rowvar", self.r.randint(0, 2), self.b()])
        return out

    def param(self, depth=2):
        r = self.r
        k = r.choice(["T", "T", "N", "S", "L", "Tup", "E"] if depth > 0 else ["T", "N", "S", "E"])
        if k == "T":
            return ["T", r.choice(["C", "A"])]
        if k == "N":
            return ["N", r.choice([None, 1, 2, 7, 2**40])]   # (an upper bound is a non-zero number)
        if k == "L":
            return ["L", self.param(depth - 1)]
        if k == "Tup":
            return ["Tup", [self.param(depth - 1) for _ in range(r.randint(0, 3))]]
        return [k]

    def arg_for(self, p, depth):
        """An argument that fits parameter p."""
        r = self.r
        k = p[0]
        if r.random() < 0.08 and self.allow_vars and (k != "T" or self.type_varg):
            return ["varg", r.randint(0, 3), p]
        if k == "T":
            if p[1] == "C":
                g = Gen(r, allow_vars=self.allow_vars, allow_ext=self.allow_ext,
                        allow_opaque=self.allow_opaque, allow_sarray=self.allow_sarray,
                        copy_only=True)
                g._defs = self._defs
                return ["t", g.ty(depth)]
            return ["t", self.ty(depth)]
        if k == "N":
            ub = p[1]
            return ["n", r.randint(0, ub - 1) if ub is not None and ub < 100 else r.choice([0, 3, 2**33])]
        if k == "S":
            return ["s", r.choice(["", "hello", "ünï", "a\"b", "  padded\t", "\nline "])]
        if k == "L":
            return ["seq", [self.arg_for(p[1], depth) for _ in range(r.randint(0, 3))]]
        if k == "Tup":
            return ["seq", [self.arg_for(q, depth) for q in p[1]]]
        if k == "E":
            return ["exts", r.sample(REQS, r.randint(0, 2))]
        raise AssertionError(p)

    def any_arg(self, depth):
        return self.arg_for(self.param(2), depth)

    def typedef(self):
        r = self.r
        if self._defs and r.random() < 0.4:
            pool = [d for d in self._defs.values()
                    if not (self.copy_only and d["bound"] == ["explicit", "A"])]
            if pool:
                return r.choice(pool)
        nparams = r.randint(0, 4)
        params = [self.param(2) for _ in range(nparams)]
        if r.random() < 0.6 and nparams:
            # make sure some type params exist for from-params bounds
            for i in r.sample(range(nparams), r.randint(1, nparams)):
                params[i] = ["T", "A"]
        tidx = [i for i, p in enumerate(params) if p[0] == "T"]
        if self.copy_only:
            bound = (["explicit", "C"] if r.random() < 0.5 or not tidx
                     else ["from", [r.choice(tidx) for _ in range(r.randint(0, 3))]])
        elif r.random() < 0.45 or not tidx:
            bound = ["explicit", r.choice(["C", "A"])]
        else:
            bound = ["from", [r.choice(tidx) for _ in range(r.randint(0, 4))]]
            if r.random() < 0.25 and len(tidx) < nparams:
                # an index list that also names positions which hold no type (the library skips them: they contribute
                # nothing, and must not stop the positions named after them from being read)
                others = [i for i in range(nparams) if i not in tidx]
                bound[1].insert(r.randrange(len(bound[1]) + 1), r.choice(others))
        name = f"D{len(self._defs)}"
        df = {"name": name, "params": params, "bound": bound}
        self._defs[name] = df
        return df

    def func(self, depth):
        return ["func", self.row(depth, 2), self.row(depth, 2),
                self.r.sample(REQS, self.r.choice([0, 0, 1, 2, 3]))]   # sample(): unsorted, order is part of the document

    def ty(self, depth):
        r = self.r
        leaves = ["unit", "bool", "usum", "usize", "int", "float", "string"]
        if self.allow_linear:
            leaves += ["qubit", "qubit"]
        if self.allow_vars:
            leaves += ["var", "alias"]
        if self.allow_opaque:
            leaves += ["opaque0"]
        if depth <= 0:
            k = r.choice(leaves)
        else:
            comp = ["sum", "tuple", "option", "either", "func", "array", "list"]
            if self.allow_sarray:
                comp.append("sarray")
            if self.allow_ext:
                comp += ["ext", "ext"]
            if self.allow_opaque:
                comp.append("opaque")
            k = r.choice(leaves + comp * 2)
        d = depth - 1
        if k in ("unit", "bool", "qubit", "usize", "float", "string"):
            return [k]
        if k == "usum":
            return ["usum", r.choice([0, 1, 2, 3, 5])]
        if k == "int":
            return ["int", r.randint(0, 6)]
        if k == "var":
            return ["var", r.randint(0, 3), self.b()]
        if k == "alias":
            return ["alias", r.choice(NAMES[:4]), self.b()]
        if k == "opaque0":
            if r.random() < 0.2:
                # the OPAQUE spelling of a type the core also knows (a document may spell usize / string that way)
                # (with the bound its definition gives it: usize and string are copyable, qubit is not)
                n_ = r.choice(["usize", "string"] if self.copy_only else ["usize", "string", "qubit"])
                return ["opaque", "prelude", n_, [], "A" if n_ == "qubit" else "C"]
            return ["opaque", r.choice(["ext.a", "b", HEXT]), r.choice(["X", "Y"]), [], self.b()]
        if k == "sum":
            return ["sum", [self.row(d, 2) for _ in range(r.randint(0, 3))]]
        if k == "tuple":
            return ["tuple", self.row(d, 3, in_row=False)]
        if k == "option":
            return ["option", self.row(d, 2, in_row=False)]
        if k == "either":
            return ["either", self.row(d, 2, in_row=False), self.row(d, 2, in_row=False)]
        if k == "func":
            return self.func(d)
        if k == "array":
            return ["array", r.choice([0, 1, 2, 5]), self.ty(d)]
        if k == "list":
            return ["list", self.ty(d)]
        if k == "sarray":
            g = Gen(r, allow_vars=self.allow_vars, allow_ext=self.allow_ext,
                    allow_opaque=self.allow_opaque, copy_only=True)
            g._defs = self._defs
            return ["sarray", g.ty(d)]
        if k == "opaque":
            args = [self.any_arg(d) for _ in range(r.randint(0, 3))]
            return ["opaque", r.choice(["ext.a", "b", HEXT]), r.choice(["X", "Y", "Z"]), args,
                    self.b()]
        if k == "ext":
            df = self.typedef()
            args = []
            for i, p in enumerate(df["params"]):
                need_copy = (self.copy_only and df["bound"][0] == "from" and i in df["bound"][1]
                             and p[0] == "T")
                args.append(self.arg_for(["T", "C"] if need_copy else p, d))
            # now and then the SAME argument at two positions whose parameters agree (only one of them may be named by
            # a from-params bound)
            same = [(i, j) for i in range(len(args)) for j in range(i + 1, len(args))
                    if df["params"][i] == df["params"][j] and df["params"][i][0] == "T"]
            if same and r.random() < 0.35:
                i, j = r.choice(same)
                keep = i if not (self.copy_only and df["bound"][0] == "from" and j in df["bound"][1]) else j
                args[i] = args[j] = args[keep]
            return ["ext", df, args]
        raise AssertionError(k)


# ----------------------------------------------------------------------------- polymorphism


def subst(d, targs):
    """Substitute type args (descriptors) for variables in a type descriptor."""
    k = d[0]
    if k == "var":
        a = targs[d[1]]
        return a[1] if a[0] == "t" else d
    if k == "sum":
        return ["sum", [subst_row(r, targs) for r in d[1]]]
    if k in ("tuple", "option"):
        return [k, subst_row(d[1], targs)]
    if k == "either":
        return [k, subst_row(d[1], targs), subst_row(d[2], targs)]
    if k == "func":
        return ["func", subst_row(d[1], targs), subst_row(d[2], targs), d[3]]
    if k == "array":
        return ["array", d[1], subst(d[2], targs)]
    if k in ("list", "sarray"):
        return [k, subst(d[1], targs)]
    return d


def subst_row(row, targs):
    out = []
    for t in row:
        if t[0] == "rowvar":
            a = targs[t[1]]
            if a[0] == "seq":
                out.extend(x[1] for x in a[1])
            else:
                out.append(t)
        else:
            out.append(subst(t, targs))
    return out


def wire_poly(params, body):
    return {"params": [wire_param(p) for p in params], "body": wire_func(body)}


def gen_poly(r, g, depth=1, force_poly=None):
    """(params, body func descriptor, targs, instantiation func descriptor)."""
    npar = r.choice([0, 0, 1, 1, 2, 3]) if force_poly is None else (r.randint(1, 3) if force_poly else 0)
    params = []
    for _ in range(npar):
        b = r.choice(["C", "A"])
        if r.random() < 0.25:
            # a parameter of any kind (unbounded / bounded nat, string, nested list / tuple, extension set);
            # the body can only mention type and type-row parameters, the others stay unused
            params.append(g.param(1))
        else:
            params.append(["L", ["T", b]] if r.random() < 0.45 else ["T", b])
    usable = [i for i, p in enumerate(params) if p[0] == "T" or (p[0] == "L" and p[1][0] == "T")]

    def vrow(n):
        row = []
        for _ in range(r.randint(0, n)):
            if usable and r.random() < 0.6:
                i = r.choice(usable)
                p = params[i]
                row.append(["rowvar", i, p[1][1]] if p[0] == "L" else ["var", i, p[1]])
            else:
                row.append(g.ty(depth))
        return row

    body = ["func", vrow(3), vrow(3), r.sample(REQS, r.choice([0, 0, 1, 2, 3]))]
    targs = []
    for p in params:
        if p[0] == "L" and p[1][0] == "T":
            targs.append(["seq", [g.arg_for(p[1], depth) for _ in range(r.choice([0, 1, 2, 3]))]])
        else:
            targs.append(g.arg_for(p, depth))
    inst = ["func", subst_row(body[1], targs), subst_row(body[2], targs), body[3]]
    return params, body, targs, inst
