"""Reach counters on anchored functions via sys.monitoring (3.12): PY_START events
enabled only on the code objects of the listed functions."""

from __future__ import annotations

import importlib
import sys

TOOL = 4  # free tool id


class Reach:
    def __init__(self) -> None:
        self.counts: dict[str, int] = {}
        self.absent: list[str] = []
        self._code: dict[object, str] = {}
        self._on = False

    def arm(self, specs: list[str]) -> None:
        """specs: 'module:Qual.name'."""
        mon = getattr(sys, "monitoring", None)
        if mon is None:
            self.absent.extend(specs)
            return
        for spec in specs:
            modname, qual = spec.split(":")
            try:
                obj = importlib.import_module(modname)
                for part in qual.split("."):
                    obj = getattr(obj, part)
                obj = getattr(obj, "__wrapped__", obj)
                if isinstance(obj, (staticmethod, classmethod)):
                    obj = obj.__func__
                if isinstance(obj, property):
                    obj = obj.fget
                code = obj.__code__
            except Exception:  # noqa: BLE001
                self.absent.append(spec)
                continue
            self._code[code] = spec
            self.counts[spec] = 0
        if not self._code:
            return
        if not self._on:
            try:
                mon.use_tool_id(TOOL, "verif-reach")
            except ValueError:
                pass
            mon.register_callback(TOOL, mon.events.PY_START, self._cb)
            self._on = True
        for code in self._code:
            mon.set_local_events(TOOL, code, mon.events.PY_START)

    def _cb(self, code, offset):  # noqa: ANN001
        spec = self._code.get(code)
        if spec is not None:
            self.counts[spec] += 1

    def disarm(self) -> None:
        mon = getattr(sys, "monitoring", None)
        if mon is None or not self._on:
            return
        for code in self._code:
            mon.set_local_events(TOOL, code, 0)
        mon.register_callback(TOOL, mon.events.PY_START, None)
        mon.free_tool_id(TOOL)
        self._on = False
