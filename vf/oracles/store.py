"""Sequential model of the hierarchical port multigraph behind hugr.Hugr (C04), the observer
that reads every public query of a real Hugr into comparable data, and the structural
invariant walked at quiescent points.  The model never looks at the implementation's state:
it is fed the indices the implementation returned (it does not prescribe allocation)."""

from __future__ import annotations

from collections import Counter

BOX = (-1, 0, 1, 2, 3)


class Model:
    def __init__(self, root_op="root"):
        self.nodes = {0: {"op": root_op, "parent": None, "children": [], "req": 0, "md": {}}}
        self.links: list[tuple] = []
        self.anomalies: list[tuple] = []

    def clone(self):
        m = Model.__new__(Model)
        m.anomalies = self.anomalies
        m.nodes = {k: {**v, "children": list(v["children"]), "md": dict(v["md"])}
                   for k, v in self.nodes.items()}
        m.links = list(self.links)
        return m

    def add_node(self, idx, op, parent, req=None, md=None):
        if idx in self.nodes:
            # the implementation handed out an index that is still live: a finding about the store, not a harness
            # error (the node it clobbers is gone from the model too, later comparisons show the damage)
            self.anomalies.append(("index-handed-out-while-live", f"a fresh index (live: {sorted(self.nodes)})", idx))
            old = self.nodes.pop(idx)
            if old["parent"] is not None and old["parent"] in self.nodes:
                self.nodes[old["parent"]]["children"] = [c for c in self.nodes[old["parent"]]["children"] if c != idx]
        self.nodes[idx] = {"op": op, "parent": parent, "children": [], "req": req or 0, "md": dict(md or {})}
        if parent is not None:
            self.nodes[parent]["children"].append(idx)

    def add_link(self, s, so, t, to):
        self.links.append((s, so, t, to))

    def add_order_link(self, s, t):
        if (s, -1, t, -1) not in self.links:
            self.links.append((s, -1, t, -1))

    def delete_link(self, s, so, t, to):
        if (s, so, t, to) in self.links:
            self.links.remove((s, so, t, to))

    def delete_node(self, n):
        nd = self.nodes.pop(n)
        assert not nd["children"], "model: only leaves are deleted"
        if nd["parent"] is not None:
            self.nodes[nd["parent"]]["children"].remove(n)
        self.links = [l for l in self.links if l[0] != n and l[2] != n]

    def insert(self, other: "Model", mapping: dict, parent):
        """other's nodes in iteration (index) order were mapped to fresh indices"""
        for b in sorted(other.nodes):
            nd = other.nodes[b]
            p = mapping[nd["parent"]] if nd["parent"] is not None else parent
            self.add_node(mapping[b], nd["op"], p, req=nd.get("eff_outs", nd["req"]), md=nd["md"])
        # the copy keeps the order of B's children (which differs from index order if B reused
        # the index of a deleted node)
        for b in other.nodes:
            self.nodes[mapping[b]]["children"] = [mapping[c] for c in other.nodes[b]["children"]]
        for (s, so, t, to) in other.links:
            self.links.append((mapping[s], so, mapping[t], to))

    # ---- expected query results
    def expect(self):
        e = {"len": len(self.nodes), "nodes": sorted(self.nodes),
             "parent": {n: d["parent"] for n, d in self.nodes.items()},
             "children": {n: list(d["children"]) for n, d in self.nodes.items()},
             "op": {n: d["op"] for n, d in self.nodes.items()},
             "links": Counter(self.links)}
        out, inc = {}, {}
        for (s, so, t, to) in self.links:
            out.setdefault((s, so), Counter())[(t, to)] += 1
            inc.setdefault((t, to), Counter())[(s, so)] += 1
        e["out"], e["inc"] = out, inc
        return e

    def state_key(self):
        return [sorted((n, d["parent"], tuple(d["children"])) for n, d in self.nodes.items()),
                sorted(self.links)]


def observe(h, handles=None, box=BOX):
    """All public queries of C04 on a real Hugr, as plain data."""
    from hugr import Node

    o = {}
    o["len"] = len(h)
    o["num_nodes"] = h.num_nodes()
    it = [n.idx for n in h]
    o["nodes"] = sorted(it)
    o["iter_dups"] = len(it) != len(set(it))
    o["anomalies"] = []
    o["parent"], o["children"], o["op"], o["nin"], o["nout"] = {}, {}, {}, {}, {}
    o["out"], o["inc"], o["out_listing"], o["inc_listing"] = {}, {}, {}, {}
    o["order_out"], o["order_in"] = {}, {}
    for i in it:
        n = Node(i)
        d = h[n]
        o["parent"][i] = d.parent.idx if d.parent is not None else None
        if d.parent is not None and type(d.parent) is not Node:
            o["anomalies"].append(("parent", f"a Node as the parent of node {i}", type(d.parent).__name__))
        o["children"][i] = [c.idx for c in h.children(n)]
        o["op"][i] = getattr(d.op, "op_name", None) or type(d.op).__name__
        o["nin"][i] = h.num_in_ports(n)
        o["nout"][i] = h.num_out_ports(n)
        offs = set(box) | set(range(max(o["nin"][i], o["nout"][i])))
        for off in offs:
            lp = Counter((p.node.idx, p.offset) for p in h.linked_ports(n.out(off)))
            if lp:
                o["out"][(i, off)] = lp
            lp = Counter((p.node.idx, p.offset) for p in h.linked_ports(n.inp(off)))
            if lp:
                o["inc"][(i, off)] = lp
        for what, listing, tgt in (("outgoing_links", h.outgoing_links(n), o["out_listing"]),
                                   ("incoming_links", h.incoming_links(n), o["inc_listing"])):
            seen_offs = []
            for port, lst in listing:
                seen_offs.append(port.offset)
                if port.node.idx != i:
                    o["anomalies"].append((what, f"entries of node {i}", f"an entry for node {port.node.idx}"))
                if lst:
                    # (an offset listed twice adds up: the multiset comparison with the model shows it)
                    tgt.setdefault((i, port.offset), Counter()).update((p.node.idx, p.offset) for p in lst)
            if len(seen_offs) != len(set(seen_offs)):
                o["anomalies"].append((what, f"one entry per port of node {i}", sorted(seen_offs)))
        # the same counts through the direction-generic spelling
        from hugr.hugr.node_port import Direction

        if (h.num_ports(n, Direction.INCOMING), h.num_ports(n, Direction.OUTGOING)) != (o["nin"][i], o["nout"][i]):
            o["anomalies"].append(("num_ports", [o["nin"][i], o["nout"][i]],
                                   [h.num_ports(n, Direction.INCOMING), h.num_ports(n, Direction.OUTGOING)]))
        if (n in h) is not True:
            o["anomalies"].append(("contains", f"Node({i}) in hugr", False))
        oo = Counter(m.idx for m in h.outgoing_order_links(n))
        if oo:
            o["order_out"][i] = oo
        oi = Counter(m.idx for m in h.incoming_order_links(n))
        if oi:
            o["order_in"][i] = oi
    o["links"] = Counter((s.node.idx, s.offset, t.node.idx, t.offset) for s, t in h.links())
    # the other spellings of iteration and lookup
    pairs = list(h.nodes())
    if [n.idx for n, _ in pairs] != it or any(d is not h[n] for n, d in pairs):
        o["anomalies"].append(("nodes()", it, [n.idx for n, _ in pairs]))
    for name in ("keys", "values", "items"):
        fn = getattr(h, name, None)
        if fn is None:
            continue
        got = list(fn())
        want = {"keys": [Node(i) for i in it], "values": [h[Node(i)] for i in it],
                "items": [(Node(i), h[Node(i)]) for i in it]}[name]
        if len(got) != len(want) or any(a != b and a is not b for a, b in zip(got, want)):
            o["anomalies"].append((name + "()", f"{len(want)} entries in iteration order", f"{len(got)} entries / other"))
    if h.root_op() is not h[h.root].op:
        o["anomalies"].append(("root_op()", "the root node's operation", repr(h.root_op())))
    # indices that were never handed out or are free now: unreachable
    size = max(it) + 1 if it else 0
    for absent in [size, size + 1, size + 7, *[j for j in range(size) if j not in set(it)][:3]]:
        try:
            h[Node(absent)]
            o["anomalies"].append(("lookup", f"KeyError for Node({absent})", "a node"))
        except KeyError:
            pass
        if Node(absent) in h:
            o["anomalies"].append(("contains", f"Node({absent}) not in hugr", True))
    return o


def compare(e, o, model: Model, report):
    """report(query, expected, observed) for every disagreement between model expectation e and
    observation o."""
    for q, exp_, obs_ in o.get("anomalies", []):
        report(q, exp_, obs_)
    for q, exp_, obs_ in model.anomalies:
        report(q, exp_, obs_)
    model.anomalies.clear()
    if o["len"] != e["len"]:
        report("len", e["len"], o["len"])
    if o["num_nodes"] != e["len"]:
        report("num_nodes", e["len"], o["num_nodes"])
    if o["nodes"] != e["nodes"] or o["iter_dups"]:
        report("iteration", e["nodes"], o["nodes"])
        return
    for k in ("parent", "children", "op"):
        if o[k] != e[k]:
            bad = {n: (e[k][n], o[k].get(n)) for n in e[k] if o[k].get(n) != e[k][n]}
            report(k, {n: v[0] for n, v in bad.items()}, {n: v[1] for n, v in bad.items()})
    if o["links"] != e["links"]:
        report("links()", sorted(e["links"].elements()), sorted(o["links"].elements()))
    if o["out"] != e["out"]:
        keys = [k for k in set(e["out"]) | set(o["out"]) if e["out"].get(k) != o["out"].get(k)]
        report("linked_ports(out)", {str(k): sorted(e["out"].get(k, Counter()).elements()) for k in keys},
               {str(k): sorted(o["out"].get(k, Counter()).elements()) for k in keys})
    if o["inc"] != e["inc"]:
        keys = [k for k in set(e["inc"]) | set(o["inc"]) if e["inc"].get(k) != o["inc"].get(k)]
        report("linked_ports(in)", {str(k): sorted(e["inc"].get(k, Counter()).elements()) for k in keys},
               {str(k): sorted(o["inc"].get(k, Counter()).elements()) for k in keys})
    eo = {k: v for k, v in e["out"].items() if k[1] >= 0}
    ei = {k: v for k, v in e["inc"].items() if k[1] >= 0}
    if o["out_listing"] != eo:
        keys = [k for k in set(eo) | set(o["out_listing"]) if eo.get(k) != o["out_listing"].get(k)]
        report("outgoing_links", {str(k): sorted(eo.get(k, Counter()).elements()) for k in keys},
               {str(k): sorted(o["out_listing"].get(k, Counter()).elements()) for k in keys})
    if o["inc_listing"] != ei:
        keys = [k for k in set(ei) | set(o["inc_listing"]) if ei.get(k) != o["inc_listing"].get(k)]
        report("incoming_links", {str(k): sorted(ei.get(k, Counter()).elements()) for k in keys},
               {str(k): sorted(o["inc_listing"].get(k, Counter()).elements()) for k in keys})
    eoo = {k[0]: Counter(t for (t, _), c in v.items() for _ in range(c)) for k, v in e["out"].items() if k[1] == -1}
    eoi = {k[0]: Counter(s for (s, _), c in v.items() for _ in range(c)) for k, v in e["inc"].items() if k[1] == -1}
    if o["order_out"] != eoo:
        report("outgoing_order_links", {k: sorted(v.elements()) for k, v in eoo.items()},
               {k: sorted(v.elements()) for k, v in o["order_out"].items()})
    if o["order_in"] != eoi:
        report("incoming_order_links", {k: sorted(v.elements()) for k, v in eoi.items()},
               {k: sorted(v.elements()) for k, v in o["order_in"].items()})
    for n, d in model.nodes.items():
        mo = max([so for (s, so, _, _) in model.links if s == n] + [-1]) + 1
        mi = max([to for (_, _, t, to) in model.links if t == n] + [-1]) + 1
        if o["nout"].get(n, 0) < max(mo, d["req"]):
            report("num_out_ports", f">= {max(mo, d['req'])} (node {n})", o["nout"].get(n))
        if o["nin"].get(n, 0) < mi:
            report("num_in_ports", f">= {mi} (node {n})", o["nin"].get(n))


def check_has_link(h, model: Model, report, cap=6):
    """has_link(src, dst) agrees with the model on every modelled link and on a box of absent ones"""
    from hugr import Node

    present = Counter(model.links)
    cands = set(present)
    live = sorted(model.nodes)[:cap]
    for s in live:
        for t in live:
            for so, to in ((0, 0), (-1, -1), (1, 0), (0, 1), (-1, 0), (0, -1), (2, 3)):
                cands.add((s, so, t, to))
    n = 0
    for (s, so, t, to) in cands:
        n += 1
        got = h.has_link(Node(s).out(so), Node(t).inp(to))
        want = present[(s, so, t, to)] > 0
        if got is not want:
            report("has_link", {str((s, so, t, to)): want}, got)
    return n


def check_metadata(h, model: Model, report):
    from hugr import Node

    for n, d in model.nodes.items():
        got = dict(h[Node(n)].metadata)
        if got != d["md"]:
            report("metadata", {n: d["md"]}, {n: got})


def invariant(h, report):
    """Structural invariant of the store's internal shape (skipped silently when the private
    attributes do not exist: properties must survive refactoring)."""
    nodes = getattr(h, "_nodes", None)
    links = getattr(h, "_links", None)
    free = getattr(h, "_free_nodes", None)
    if nodes is None or links is None or free is None:
        return False
    live = {i for i, d in enumerate(nodes) if d is not None}
    dead = {i for i, d in enumerate(nodes) if d is None}
    fl = [n.idx for n in free]
    if sorted(fl) != sorted(dead) or len(fl) != len(set(fl)):
        report("free-list", sorted(dead), sorted(fl))
    fwd = getattr(links, "fwd", None)
    if fwd is None:
        return True
    subs_out, subs_in = {}, {}
    for s, t in fwd.items():
        if s.port.node.idx not in live or t.port.node.idx not in live:
            report("link-endpoint-dead", "both endpoints live",
                   [s.port.node.idx, s.port.offset, t.port.node.idx, t.port.offset])
        subs_out.setdefault((s.port.node.idx, s.port.offset), []).append(s.sub_offset)
        subs_in.setdefault((t.port.node.idx, t.port.offset), []).append(t.sub_offset)
    for what, subs in (("out", subs_out), ("in", subs_in)):
        for k, lst in subs.items():
            if sorted(lst) != list(range(len(lst))):
                report("sub-offset-gap", f"{what} port {k}: 0..{len(lst) - 1}", sorted(lst))
    for i in live:
        d = nodes[i]
        if i != h.root.idx:
            if d.parent is None or d.parent.idx not in live:
                report("parent-dead", f"node {i} has a live parent", repr(d.parent))
            elif [c.idx for c in nodes[d.parent.idx].children].count(i) != 1:
                report("child-registration", f"node {i} once among its parent's children",
                       [c.idx for c in nodes[d.parent.idx].children])
        for c in d.children:
            if c.idx not in live or nodes[c.idx].parent is None or nodes[c.idx].parent.idx != i:
                report("children-list", f"children of {i} are live and point back", c.idx)
    return True
