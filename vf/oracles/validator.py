"""JSON-level re-implementation of the validity rules C01 enumerates (from hugr-core
hugr/validate.rs and ops/validate.rs).  Input: a serialized HUGR document (dict).  Output: a
list of findings {"rule", "node", "detail"}.  Never imports hugr."""

from __future__ import annotations

from . import wire

DATAFLOW_CHILD = {"Input", "Output", "DFG", "CFG", "Conditional", "TailLoop", "Call", "CallIndirect",
                  "LoadConstant", "LoadFunction", "Extension", "Tag", "Const", "FuncDefn", "AliasDecl",
                  "AliasDefn"}
SCOPED = {"Const", "FuncDefn", "AliasDecl", "AliasDefn"}
MODULE_OP = SCOPED | {"FuncDecl"}
CF_CHILD = {"DataflowBlock", "ExitBlock"} | SCOPED
DF_PARENT = {"DFG", "FuncDefn", "DataflowBlock", "Case", "TailLoop"}


def allowed_children(op):
    if op == "Module":
        return MODULE_OP
    if op in DF_PARENT:
        return DATAFLOW_CHILD
    if op == "CFG":
        return CF_CHILD
    if op == "Conditional":
        return {"Case"}
    return None  # not a container


class Doc:
    def __init__(self, doc):
        self.doc = doc
        self.nodes = doc["nodes"]
        self.n = len(self.nodes)
        self.parent = [nd["parent"] for nd in self.nodes]
        self.children: list[list[int]] = [[] for _ in self.nodes]
        for i, p in enumerate(self.parent):
            if i != 0 and 0 <= p < self.n:
                self.children[p].append(i)
        self.ports = []
        self.port_err = {}
        for i, nd in enumerate(self.nodes):
            try:
                self.ports.append(wire.op_ports(nd))
            except Exception as e:  # noqa: BLE001
                self.ports.append({"in": [], "out": [], "other_in": None, "other_out": None})
                self.port_err[i] = f"{type(e).__name__}: {e}"
        # edges with null offsets resolved to the 'other' port
        self.edges = []
        self.bad_edges = []
        for e in doc["edges"]:
            (s, so), (t, to) = e
            if not (0 <= s < self.n and 0 <= t < self.n):
                self.bad_edges.append(e)
                continue
            if so is None:
                so = wire.other_index(self.ports[s], "out")
            if to is None:
                to = wire.other_index(self.ports[t], "in")
            self.edges.append((s, so, t, to))

    def op(self, i):
        return self.nodes[i]["op"]

    def ancestors(self, i):
        """i's parent, grandparent, ... up to the root"""
        out, seen = [], set()
        while i != 0 and i not in seen:
            seen.add(i)
            i = self.parent[i]
            out.append(i)
        return out


def validate(doc, check_ext=None):
    """check_ext: optional callable(op_json) -> (ins, outs) canonical rows expected for a known
    extension op, or None."""
    F = []

    def f(rule, node, detail):
        F.append({"rule": rule, "node": node, "detail": detail})

    try:
        d = Doc(doc)
    except Exception as e:  # noqa: BLE001
        return [{"rule": "V-DOC", "node": None, "detail": f"{type(e).__name__}: {e}"}]
    for i, msg in d.port_err.items():
        f("V-OP", i, msg)
    for e in d.bad_edges:
        f("V-EDGE-NODE", None, f"edge {e} names a missing node")
    if d.port_err or d.bad_edges:
        return F   # unreadable operations / dangling edges: the remaining rules presuppose a readable document
    # ---- hierarchy
    if d.parent[0] != 0:
        f("V-ROOT", 0, "node 0 is not its own parent")
    for i in range(1, d.n):
        p = d.parent[i]
        if not (0 <= p < d.n) or p == i:
            f("V-PARENT", i, f"bad parent {p}")
        elif d.ancestors(i)[-1:] != [0]:
            f("V-PARENT", i, "not connected to the root")
    # ---- children rules
    for i in range(d.n):
        op = d.op(i)
        ch = d.children[i]
        allowed = allowed_children(op)
        if ch and allowed is None:
            f("V-CHILD", i, f"{op} is not a container but has children {ch}")
            continue
        if not ch:
            if op in DF_PARENT or op in ("CFG", "Conditional"):
                f("V-CHILD", i, f"{op} requires children")
            continue
        for c in ch:
            if d.op(c) not in allowed:
                f("V-CHILD", c, f"{d.op(c)} not allowed under {op}")
        if op in DF_PARENT:
            ins, outs = wire.inner_signature(d.nodes[i])
            if d.op(ch[0]) != "Input":
                f("V-FIRST", i, f"first child of {op} is {d.op(ch[0])}, not Input")
            elif wire.canon(d.nodes[ch[0]]["types"]) != ins:
                f("V-IOROW", ch[0], {"what": f"Input row of {op}", "expected": ins,
                                     "actual": wire.canon(d.nodes[ch[0]]["types"])})
            if len(ch) < 2 or d.op(ch[1]) != "Output":
                f("V-SECOND", i, f"second child of {op} is not Output")
            elif wire.canon(d.nodes[ch[1]]["types"]) != outs:
                f("V-IOROW", ch[1], {"what": f"Output row of {op}", "expected": outs,
                                     "actual": wire.canon(d.nodes[ch[1]]["types"])})
            for c in ch[2:]:
                if d.op(c) in ("Input", "Output"):
                    f("V-INTERIOR", c, f"{d.op(c)} as an interior child of {op}")
        elif op == "CFG":
            sig = d.nodes[i]["signature"]
            if d.op(ch[0]) != "DataflowBlock":
                f("V-FIRST", i, f"first child of CFG is {d.op(ch[0])}")
            elif wire.canon(d.nodes[ch[0]]["inputs"]) != wire.canon(sig["input"]):
                f("V-IOROW", ch[0], {"what": "entry block inputs", "expected": wire.canon(sig["input"]),
                                     "actual": wire.canon(d.nodes[ch[0]]["inputs"])})
            if len(ch) < 2 or d.op(ch[1]) != "ExitBlock":
                f("V-SECOND", i, "second child of CFG is not ExitBlock")
            elif wire.canon(d.nodes[ch[1]]["cfg_outputs"]) != wire.canon(sig["output"]):
                f("V-IOROW", ch[1], {"what": "exit block outputs", "expected": wire.canon(sig["output"]),
                                     "actual": wire.canon(d.nodes[ch[1]]["cfg_outputs"])})
            for c in ch[2:]:
                if d.op(c) == "ExitBlock":
                    f("V-INTERIOR", c, "ExitBlock as an interior child")
        elif op == "Conditional":
            nd = d.nodes[i]
            if len(nd["sum_rows"]) != len(ch):
                f("V-IOROW", i, f"{len(nd['sum_rows'])} variants but {len(ch)} cases")
            else:
                for k, c in enumerate(ch):
                    if d.op(c) != "Case":
                        continue
                    want_in = wire.canon([*nd["sum_rows"][k], *nd["other_inputs"]])
                    sig = d.nodes[c]["signature"]
                    if wire.canon(sig["input"]) != want_in or wire.canon(sig["output"]) != wire.canon(nd["outputs"]):
                        f("V-IOROW", c, {"what": f"case {k} signature",
                                         "expected": [want_in, wire.canon(nd["outputs"])],
                                         "actual": [wire.canon(sig["input"]), wire.canon(sig["output"])]})
    # ---- edges: ports, kinds
    inc: dict[tuple, list] = {}
    out: dict[tuple, list] = {}
    for (s, so, t, to) in d.edges:
        ks = wire.port_kind(d.ports[s], "out", so) if so is not None else None
        kt = wire.port_kind(d.ports[t], "in", to) if to is not None else None
        if ks is None:
            f("V-PORTS", s, f"edge leaves {d.op(s)} at out offset {so}, which the op does not have "
                            f"(value/static {len(d.ports[s]['out'])}, other {d.ports[s]['other_out']})")
        if kt is None:
            f("V-PORTS", t, f"edge enters {d.op(t)} at in offset {to}, which the op does not have "
                            f"(value/static {len(d.ports[t]['in'])}, other {d.ports[t]['other_in']})")
        if ks is None or kt is None:
            continue
        if ks != kt:
            f("V-KIND", s, {"edge": [s, so, t, to], "from": f"{d.op(s)}", "to": f"{d.op(t)}",
                            "from_kind": ks, "to_kind": kt})
        inc.setdefault((t, to), []).append((s, so))
        out.setdefault((s, so), []).append((t, to))
        if s == 0 or t == 0:
            f("V-ROOT", 0, f"root has an edge {[s, so, t, to]}")
    # ---- connectedness
    for i in range(1 if d.n else 0, d.n):
        P = d.ports[i]
        for off, k in enumerate(P["in"]):
            n = len(inc.get((i, off), []))
            if n == 0:
                f("V-CONNECT", i, f"{d.op(i)} input {off} ({k[0]}) is not connected")
            elif n > 1:
                f("V-CONNECT", i, f"{d.op(i)} input {off} ({k[0]}) has {n} incoming links")
        for off, k in enumerate(P["out"]):
            n = len(out.get((i, off), []))
            if k == "cf":
                if n != 1:
                    f("V-CONNECT", i, f"control-flow output {off} of {d.op(i)} has {n} links")
            elif k[0] == "value" and wire.bound_of(k[1]) == "A":
                if n != 1:
                    f("V-CONNECT", i, f"linear output {off} of {d.op(i)} has {n} links")
    # ---- DAG per dataflow parent
    for i in range(d.n):
        if d.op(i) in DF_PARENT and d.children[i]:
            ch = set(d.children[i])
            succ = {c: [] for c in ch}
            indeg = {c: 0 for c in ch}
            for (s, so, t, to) in d.edges:
                if s in ch and t in ch:
                    succ[s].append(t)
                    indeg[t] += 1
            stack = [c for c in ch if indeg[c] == 0]
            seen = 0
            while stack:
                x = stack.pop()
                seen += 1
                for y in succ[x]:
                    indeg[y] -= 1
                    if indeg[y] == 0:
                        stack.append(y)
            if seen != len(ch):
                f("V-DAG", i, f"children of {d.op(i)} contain a cycle")
    # ---- CFG edges and dominators
    doms: dict[int, dict] = {}

    def dominators(cfg):
        if cfg in doms:
            return doms[cfg]
        ch = d.children[cfg]
        blocks = [c for c in ch if d.op(c) in ("DataflowBlock", "ExitBlock")]
        preds = {b: set() for b in blocks}
        for (s, so, t, to) in d.edges:
            if s in preds and t in preds:
                preds[t].add(s)
        entry = ch[0]
        dom = {b: set(blocks) for b in blocks}
        dom[entry] = {entry}
        changed = True
        while changed:
            changed = False
            for b in blocks:
                if b == entry:
                    continue
                ps = [dom[p] for p in preds[b]]
                new = ({b} | set.intersection(*ps)) if ps else {b}
                if new != dom[b]:
                    dom[b] = new
                    changed = True
        # unreachable blocks have no dominators in petgraph's result
        reach, st = {entry}, [entry]
        succs = {b: set() for b in blocks}
        for b in blocks:
            for p in preds[b]:
                succs[p].add(b)
        while st:
            x = st.pop()
            for y in succs[x]:
                if y not in reach:
                    reach.add(y)
                    st.append(y)
        for b in blocks:
            if b not in reach:
                dom[b] = set()
        doms[cfg] = dom
        return dom

    for (s, so, t, to) in d.edges:
        ks = wire.port_kind(d.ports[s], "out", so) if so is not None else None
        if ks is None or s == 0 or t == 0:
            continue
        if ks == "cf":
            if d.parent[s] != d.parent[t]:
                f("V-NOREL", s, f"control-flow edge {[s, so, t, to]} between non-siblings")
                continue
            src = d.nodes[s]
            want = wire.canon([*src["sum_rows"][so], *src["other_outputs"]])
            tgt = d.nodes[t]
            got = wire.canon(tgt["inputs"] if tgt["op"] == "DataflowBlock" else tgt.get("cfg_outputs", []))
            if want != got:
                f("V-CFEDGE", s, {"edge": [s, so, t, to], "successor_row": want, "target_row": got})
            continue
        if d.parent[s] == d.parent[t]:
            continue
        static = ks != "order" and ks[0] in ("const", "func")
        if not static:
            if ks == "order" or wire.bound_of(ks[1]) != "C":
                f("V-EXT", s, {"edge": [s, so, t, to], "why": "non-local edge that is not a copyable value",
                               "kind": ks})
                continue
        fp = d.parent[s]
        fpp = d.parent[fp] if fp != 0 else None
        chain = [t, *d.ancestors(t)]  # t, parent(t), ...
        entered_func = None
        verdict = None
        for a_idx in range(1, len(chain) - 1):
            anc, anc_parent = chain[a_idx], chain[a_idx + 1]
            if not static and d.op(anc) == "FuncDefn" and entered_func is None:
                entered_func = anc
            if anc_parent == fp:
                if entered_func is not None:
                    verdict = ("V-EXT", f"value edge {[s, so, t, to]} enters function {entered_func}")
                elif not static:
                    oi = wire.other_index(d.ports[s], "out")
                    ai = wire.other_index(d.ports[anc], "in")
                    if not any(e == (s, oi, anc, ai) for e in d.edges) or d.ports[s]["other_out"] != "order":
                        verdict = ("V-EXT", {"edge": [s, so, t, to],
                                             "why": f"no state-order edge from {s} to ancestor {anc}"})
                    else:
                        verdict = "ok"
                else:
                    verdict = "ok"
                break
            if fpp is not None and anc_parent == fpp and not static:
                if d.op(anc_parent) != "CFG":
                    verdict = ("V-DOM", f"edge {[s, so, t, to]}: common ancestor {d.op(anc_parent)} is not a CFG")
                elif entered_func is not None:
                    verdict = ("V-EXT", f"value edge {[s, so, t, to]} enters function {entered_func}")
                elif fp not in dominators(anc_parent).get(anc, set()):
                    verdict = ("V-DOM", f"edge {[s, so, t, to]}: block {fp} does not dominate block {anc}")
                else:
                    verdict = "ok"
                break
        # the loop above starts at parent(t); handle t's parent being a sibling-level match
        if verdict is None:
            # a_idx = 0: (ancestor = parent(t) ... ) is covered because chain[1] = parent(t);
            # tuple_windows in the reference pairs (parent(t), grandparent(t)), ...
            f("V-NOREL", s, f"edge {[s, so, t, to]}: source and target are unrelated in the hierarchy")
        elif verdict != "ok":
            f(verdict[0], s, verdict[1])
    # ---- constants
    for i in range(d.n):
        if d.op(i) == "Const":
            probs: list = []
            try:
                wire.inhabits(d.nodes[i]["v"], probs)
            except Exception as e:  # noqa: BLE001
                probs.append(f"{type(e).__name__}: {e}")
            for p in probs[:2]:
                f("V-CONST", i, p)
    # ---- calls, type variables, extension ops
    for i in range(d.n):
        nd = d.nodes[i]
        op = nd["op"]
        if op in ("Call", "LoadFunction"):
            ps, args = nd["func_sig"]["params"], nd["type_args"]
            if len(ps) != len(args) or not all(wire.arg_fits(a, p) for a, p in zip(args, ps)):
                f("V-CALL", i, {"why": "type args do not fit the parameters", "params": ps, "args": args})
            else:
                body = nd["func_sig"]["body"]
                want = wire.canon({"t": "G", "input": wire.subst_row(body["input"], args),
                                   "output": wire.subst_row(body["output"], args),
                                   "runtime_reqs": body.get("runtime_reqs", [])})
                got = wire.canon({"t": "G", **nd["instantiation"]})
                if want != got:
                    f("V-CALL", i, {"why": "instantiation is not func_sig applied to type_args",
                                    "expected": want, "actual": got})
        if op == "Extension" and check_ext is not None:
            exp = check_ext(nd)
            if exp is not None:
                sig = nd["signature"]
                got = (wire.strip_reqs(wire.canon(sig["input"])), wire.strip_reqs(wire.canon(sig["output"])))
                if got != exp:
                    f("V-EXTOP", i, {"op": f"{nd['extension']}.{nd['name']}", "expected": exp, "actual": got})
        # type variables
        decls = None
        for a in ([i] if op == "FuncDefn" else []) + d.ancestors(i):
            if d.op(a) == "FuncDefn":
                decls = d.nodes[a]["signature"]["params"]
                break
        if op == "FuncDefn":
            _vars(nd["signature"]["body"], nd["signature"]["params"], f, i)
        else:
            P = d.ports[i]
            for k in [*P["in"], *P["out"]]:
                if isinstance(k, tuple) and k[0] == "value":
                    _vars(k[1], decls or [], f, i)
                elif isinstance(k, tuple) and k[0] == "const":
                    _vars(k[1], [], f, i)
    return F


def _vars(t, decls, f, node):
    if isinstance(t, list):
        for x in t:
            _vars(x, decls, f, node)
    elif isinstance(t, dict):
        k = t.get("t")
        if k in ("V", "R"):
            i = t["i"]
            want = {"tp": "Type", "b": t["b"]} if k == "V" else {"tp": "List", "param": {"tp": "Type", "b": t["b"]}}
            if i >= len(decls):
                f("V-VARS", node, f"free type variable {i} ({len(decls)} declared)")
            elif decls[i] != want:
                f("V-VARS", node, {"var": i, "declared": decls[i], "used_as": want})
        else:
            for key, v in t.items():
                if key in ("params", "cached_decl"):
                    continue
                if key == "body" and "params" in t:
                    continue  # nested polymorphic signature binds its own variables
                _vars(v, decls, f, node)
