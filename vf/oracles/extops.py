"""Expected (input row, output row) of the extension ops the workloads use, computed from the
serialized op's name and type arguments only (definitions transcribed from the bundled std
extensions and the harness extension).  Used by the validator's V-EXTOP rule."""

from __future__ import annotations

from . import wire

Q = {"t": "Q"}
BOOL = {"t": "Sum", "s": "Unit", "size": 2}
FLOAT = {"t": "Opaque", "extension": "arithmetic.float.types", "id": "float64", "args": [], "bound": "C"}

TEST_OPS = {
    "H": ([Q], [Q]), "CX": ([Q, Q], [Q, Q]), "Measure": ([Q], [Q, BOOL]), "Rz": ([Q, FLOAT], [Q]),
    "Fan3": ([BOOL], [BOOL, BOOL, BOOL]), "Nop0": ([], []), "Swap": ([BOOL, Q], [Q, BOOL]),
    "QAlloc": ([], [Q]), "QFree": ([Q], []), "CCX": ([Q, Q, Q], [Q, Q, Q]),
}


def check_ext(op):
    ext, name, args = op.get("extension"), op.get("name"), op.get("args", [])
    c = lambda rows: tuple(wire.strip_reqs(wire.canon(r)) for r in rows)  # noqa: E731
    try:
        if ext == "verif.test" and name in TEST_OPS:
            return c(TEST_OPS[name])
        if ext == "prelude" and name in ("MakeTuple", "UnpackTuple"):
            tys = [e["ty"] for e in args[0]["elems"]]
            tup = {"t": "Sum", "s": "General", "rows": [tys]}
            return c((tys, [tup]) if name == "MakeTuple" else ([tup], tys))
        if ext == "prelude" and name == "Noop":
            t = args[0]["ty"]
            return c(([t], [t]))
        if ext == "logic" and name == "Not":
            return c(([BOOL], [BOOL]))
        if ext == "arithmetic.int" and name == "idivmod_u":
            it = {"t": "Opaque", "extension": "arithmetic.int.types", "id": "int",
                  "args": [{"tya": "BoundedNat", "n": args[0]["n"]}], "bound": "C"}
            return c(([it, it], [it, it]))
    except (KeyError, IndexError, TypeError):
        return ((["malformed args"]), [])
    return None
