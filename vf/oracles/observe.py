"""Observable structure of a Hugr through its public query API only (C02 / C08 / C15 / C20).

`observe(h)` renumbers nodes order-preservingly (the one licence serialization has) and returns,
per node: encoded op (parent masked), parent, ordered children, metadata, and for every port
offset in {-1} U range(num_ports) the multiset of linked ports seen from both ends."""

from __future__ import annotations

import json
from collections import Counter


def enc_op(op):
    from hugr import Node

    j = op._to_serial(Node(0)).model_dump(mode="json")
    j.pop("parent", None)
    return j


def observe(h, plus=False, renumber=True):
    from hugr import Node

    order = [n.idx for n in h]
    ren = {old: new for new, old in enumerate(order)} if renumber else {i: i for i in order}
    out = {"n": len(order), "nodes": []}
    links = Counter()
    for old in order:
        n = Node(old)
        d = h[n]
        rec = {
            "op": enc_op(d.op),
            "parent": ren[d.parent.idx] if d.parent is not None else None,
            "children": [ren[c.idx] for c in h.children(n)],
            "metadata": json.loads(json.dumps(d.metadata, sort_keys=True, default=repr)),
        }
        nin, nout = h.num_in_ports(n), h.num_out_ports(n)
        po, pi = {}, {}
        for off in [-1, *range(nout)]:
            lst = sorted([ren[p.node.idx], p.offset] for p in h.linked_ports(n.out(off)))
            if lst:
                po[str(off)] = lst
        for off in [-1, *range(nin)]:
            lst = sorted([ren[p.node.idx], p.offset] for p in h.linked_ports(n.inp(off)))
            if lst:
                pi[str(off)] = lst
        rec["out"], rec["in"] = po, pi
        if plus:
            rec["num_out_ports"] = nout
            rec["num_in_ports"] = nin
            rec["idx"] = old
        out["nodes"].append(rec)
    for s, t in h.links():
        links[(ren[s.node.idx], s.offset, ren[t.node.idx], t.offset)] += 1
    out["links"] = sorted([*k, c] for k, c in links.items())
    if plus:
        out["root"] = h.root.idx
    return out


def diff(a, b, path="", out=None, limit=6):
    """paths at which two JSON values differ"""
    if out is None:
        out = []
    if len(out) >= limit:
        return out
    if type(a) is not type(b) and not (isinstance(a, (int, float)) and isinstance(b, (int, float))
                                          and not isinstance(a, bool) and not isinstance(b, bool)):
        out.append((path, a, b))
    elif isinstance(a, dict):
        for k in sorted(set(a) | set(b)):
            if k not in a:
                out.append((f"{path}.{k}", "<absent>", b[k]))
            elif k not in b:
                out.append((f"{path}.{k}", a[k], "<absent>"))
            else:
                diff(a[k], b[k], f"{path}.{k}", out, limit)
            if len(out) >= limit:
                break
    elif isinstance(a, list):
        if len(a) != len(b):
            out.append((f"{path}.len", len(a), len(b)))
        for i, (x, y) in enumerate(zip(a, b)):
            diff(x, y, f"{path}[{i}]", out, limit)
            if len(out) >= limit:
                break
    elif a != b:
        out.append((path, a, b))
    return out


def generic_path(p):
    """strip indices so that a path names a mechanism, not a position"""
    import re

    p = re.sub(r"\[\d+\]", "[*]", p)
    p = re.sub(r"\.(in|out)\.-?\d+", r".\1.<port>", p)
    p = re.sub(r"\.metadata\..*", ".metadata.<key>", p)
    return p


def child_before_parent(h):
    """a live node whose index is smaller than its parent's (arises after index reuse)"""
    return any(h[n].parent is not None and n.idx < h[n].parent.idx for n in h)
