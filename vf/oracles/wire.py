"""JSON-level model of the wire format: canonical types, value typing and inhabitation
(transcribed from hugr-core/src/types and ops/constant.rs).  Never imports hugr."""

from __future__ import annotations


def canon(t):
    """Canonical form of a serialized Type / SumType / TypeArg / row (recursively)."""
    if isinstance(t, list):
        return [canon(x) for x in t]
    if not isinstance(t, dict):
        return t
    if "tya" in t:
        k = t["tya"]
        if k == "Type":
            return {"tya": "Type", "ty": canon(t["ty"])}
        if k == "Sequence":
            return {"tya": "Sequence", "elems": [canon(e) for e in t["elems"]]}
        if k == "Extensions":
            return {"tya": "Extensions", "es": sorted(set(t["es"]))}
        return dict(t)
    k = t.get("t")
    if k == "Sum" or ("s" in t and k is None):
        if t["s"] == "Unit":
            return {"t": "Sum", "s": "Unit", "size": t["size"]}
        rows = [canon(r) for r in t["rows"]]
        if all(len(r) == 0 for r in rows):
            return {"t": "Sum", "s": "Unit", "size": len(rows)}
        return {"t": "Sum", "s": "General", "rows": rows}
    if k == "G":
        return {"t": "G", "input": canon(t["input"]), "output": canon(t["output"]),
                "runtime_reqs": sorted(set(t.get("runtime_reqs", [])))}
    if k == "Opaque":
        return {"t": "Opaque", "extension": t["extension"], "id": t["id"],
                "args": [canon(a) for a in t["args"]], "bound": t["bound"]}
    return dict(t)


def canon_poly(p):
    return {"params": p["params"], "body": canon({"t": "G", **p["body"]})}


def sum_rows(t):
    """variant rows (lists of canonical types) of a canonical sum type, else None"""
    if not isinstance(t, dict) or t.get("t") != "Sum":
        return None
    if t["s"] == "Unit":
        return [[] for _ in range(t["size"])]
    return t["rows"]


def strip_reqs(t):
    """canonical form with function-type runtime_reqs erased (rows-only comparison)"""
    if isinstance(t, list):
        return [strip_reqs(x) for x in t]
    if isinstance(t, dict):
        return {k: ([] if k == "runtime_reqs" else strip_reqs(v)) for k, v in t.items()}
    return t


class Malformed(Exception):
    pass


def root_signature(hj):
    """function type of a serialized HUGR used as a function value"""
    nodes = hj["nodes"]
    root = nodes[0]
    if root["op"] == "DFG":
        return canon({"t": "G", **root["signature"]})
    if root["op"] == "FuncDefn":
        if root["signature"]["params"]:
            raise Malformed("polymorphic function value")
        return canon({"t": "G", **root["signature"]["body"]})
    if root["op"] == "TailLoop":
        # the body of a loop takes just_inputs + rest and yields Sum(just_inputs | just_outputs) + rest
        ji, jo, rest = root["just_inputs"], root["just_outputs"], root["rest"]
        return canon({"t": "G", "input": [*ji, *rest],
                      "output": [{"t": "Sum", "s": "General", "rows": [ji, jo]}, *rest],
                      "runtime_reqs": []})
    raise Malformed(f"function value rooted at {root['op']}")


def body_rows(hj):
    """(Input row, Output row) of the first two children of the root of a serialized HUGR, or None"""
    kids = [n for i, n in enumerate(hj["nodes"]) if i != 0 and n["parent"] == 0]
    if len(kids) >= 2 and kids[0]["op"] == "Input" and kids[1]["op"] == "Output":
        return [canon(t) for t in kids[0]["types"]], [canon(t) for t in kids[1]["types"]]
    return None


def type_of_value(v):
    k = v["v"]
    if k == "Sum":
        return canon(v["typ"])
    if k == "Tuple":
        return canon({"t": "Sum", "s": "General", "rows": [[type_of_value(x) for x in v["vs"]]]})
    if k == "Function":
        return root_signature(v["hugr"])
    if k == "Extension":
        return canon(v["typ"])
    raise Malformed(f"value kind {k}")


def as_sum(v):
    """(tag, rows, vs) view of a Sum or Tuple value"""
    if v["v"] == "Tuple":
        return 0, [[type_of_value(x) for x in v["vs"]]], v["vs"]
    if v["v"] == "Sum":
        return v["tag"], sum_rows(canon(v["typ"])), v["vs"]
    return None


STD_CONST = {
    "ConstInt": ("arithmetic.int.types", "int"),
    "ConstF64": ("arithmetic.float.types", "float64"),
    "ConstString": ("prelude", "string"),
    "ArrayValue": ("collections.array", "array"),
    "ListValue": ("collections.list", "List"),
    "StaticArrayValue": ("collections.static_array", "static_array"),
}


def inhabits(v, problems, path="v"):
    """Append a message to `problems` for every way the serialized value `v` fails to inhabit
    the type it carries/reports (constant.rs: Value::validate / SumType::check_type)."""
    k = v.get("v")
    if k in ("Sum", "Tuple"):
        tag, rows, vs = as_sum(v)
        if rows is None:
            problems.append(f"{path}: typ is not a sum")
            return
        if not (isinstance(tag, int) and 0 <= tag < len(rows)):
            problems.append(f"{path}: tag {tag} out of range for {len(rows)} variants")
            return
        row = rows[tag]
        if len(row) != len(vs):
            problems.append(f"{path}: variant {tag} has {len(row)} fields, value has {len(vs)}")
            return
        for i, (ft, fv) in enumerate(zip(row, vs)):
            try:
                got = type_of_value(fv)
            except Malformed as e:
                problems.append(f"{path}.vs[{i}]: {e}")
                continue
            if got != canon(ft):
                problems.append(f"{path}.vs[{i}]: field type {canon(ft)} but value has type {got}")
            inhabits(fv, problems, f"{path}.vs[{i}]")
    elif k == "Function":
        try:
            root_signature(v["hugr"])
        except Malformed as e:
            problems.append(f"{path}: {e}")
    elif k == "Extension":
        name = v["value"]["c"]
        if name in STD_CONST:
            _std_const(v, name, problems, path)
    else:
        problems.append(f"{path}: unknown value kind {k}")


def _std_const(v, name, problems, path):
    ext, tid = STD_CONST[name]
    typ = canon(v["typ"])
    pay = v["value"]["v"]
    if typ.get("t") != "Opaque" or typ.get("extension") != ext or typ.get("id") != tid:
        problems.append(f"{path}: {name} reports type {typ}, expected {ext}.{tid}")
        return
    if ext not in v.get("extensions", []):
        problems.append(f"{path}: {name} does not name {ext} among its extensions {v.get('extensions')}")
    args = typ["args"]
    if name == "ConstInt":
        w = pay.get("log_width")
        if args != [{"tya": "BoundedNat", "n": w}]:
            problems.append(f"{path}: ConstInt log_width {w} but type args {args}")
        val = pay.get("value")
        if not (isinstance(w, int) and 0 <= w <= 6 and isinstance(val, int)
                and not isinstance(val, bool) and 0 <= val < 2 ** (2 ** w)):
            problems.append(f"{path}: ConstInt value {val} does not fit width {w}")
        if typ["bound"] != "C":
            problems.append(f"{path}: int type bound {typ['bound']}")
    elif name == "ConstF64":
        if not isinstance(pay.get("value"), (int, float)) or isinstance(pay.get("value"), bool) or args:
            problems.append(f"{path}: ConstF64 payload {pay}")
    elif name == "ConstString":
        if not isinstance(pay.get("value"), str) or args:
            problems.append(f"{path}: ConstString payload {pay}")
    else:
        inner = pay.get("value") if name == "StaticArrayValue" else pay
        if name == "StaticArrayValue" and not isinstance(pay.get("name"), str):
            problems.append(f"{path}: StaticArrayValue without a name")
        if not isinstance(inner, dict) or "values" not in inner or "typ" not in inner:
            problems.append(f"{path}: {name} payload shape {pay}")
            return
        elem = canon(inner["typ"])
        targs = [a for a in args if a.get("tya") == "Type"]
        if len(targs) != 1 or targs[0]["ty"] != elem:
            problems.append(f"{path}: {name} element type {elem} but type args {args}")
        if name == "ArrayValue":
            nats = [a for a in args if a.get("tya") == "BoundedNat"]
            if len(nats) != 1 or nats[0]["n"] != len(inner["values"]):
                problems.append(f"{path}: array size arg {nats} but {len(inner['values'])} elements")
        for i, ev in enumerate(inner["values"]):
            if not isinstance(ev, dict) or "v" not in ev:
                problems.append(f"{path}.values[{i}]: element is not a complete value document")
                continue
            try:
                got = type_of_value(ev)
            except Malformed as e:
                problems.append(f"{path}.values[{i}]: {e}")
                continue
            if got != elem:
                problems.append(f"{path}.values[{i}]: element type {got} != {elem}")
            inhabits(ev, problems, f"{path}.values[{i}]")


# ----------------------------------------------------------------------------- port tables
def _fn(sig):
    return canon({"t": "G", **sig})


def op_ports(op):
    """Port table of a serialized op (transcribed from hugr-core ops: value ports, then the static
    port, then the 'other' (order / control-flow) port).
    Returns {"in": [kind..], "out": [kind..], "other_in": k|None, "other_out": k|None} with
    kind = ("value", canonical type) | ("const", type) | ("func", canonical poly) | "order" | "cf"."""
    k = op["op"]
    V = lambda row: [("value", canon(t)) for t in row]  # noqa: E731
    none = {"in": [], "out": [], "other_in": None, "other_out": None}
    df = lambda i, o: {"in": V(i), "out": V(o), "other_in": "order", "other_out": "order"}  # noqa: E731
    if k in ("Module", "AliasDecl", "AliasDefn", "Case"):
        return none
    if k in ("FuncDefn", "FuncDecl"):
        return {**none, "out": [("func", canon_poly(op["signature"]))]}
    if k == "Const":
        return {**none, "out": [("const", type_of_value(op["v"]))]}
    if k == "Input":
        return {"in": [], "out": V(op["types"]), "other_in": None, "other_out": "order"}
    if k == "Output":
        return {"in": V(op["types"]), "out": [], "other_in": "order", "other_out": None}
    if k in ("DFG", "CFG"):
        return df(op["signature"]["input"], op["signature"]["output"])
    if k == "DataflowBlock":
        return {"in": [], "out": ["cf"] * len(op["sum_rows"]), "other_in": "cf", "other_out": None}
    if k == "ExitBlock":
        return {**none, "other_in": "cf"}
    if k == "Conditional":
        return df([{"t": "Sum", "s": "General", "rows": op["sum_rows"]}, *op["other_inputs"]], op["outputs"])
    if k == "TailLoop":
        return df([*op["just_inputs"], *op["rest"]], [*op["just_outputs"], *op["rest"]])
    if k == "Call":
        p = df(op["instantiation"]["input"], op["instantiation"]["output"])
        p["in"].append(("func", canon_poly(op["func_sig"])))
        return p
    if k == "CallIndirect":
        s = op["signature"]
        return df([{"t": "G", **s}, *s["input"]], s["output"])
    if k == "LoadConstant":
        p = df([], [op["datatype"]])
        p["in"].append(("const", canon(op["datatype"])))
        return p
    if k == "LoadFunction":
        p = df([], [{"t": "G", **op["instantiation"]}])
        p["in"].append(("func", canon_poly(op["func_sig"])))
        return p
    if k == "Extension":
        return df(op["signature"]["input"], op["signature"]["output"])
    if k == "Tag":
        return df(op["variants"][op["tag"]], [{"t": "Sum", "s": "General", "rows": op["variants"]}])
    raise Malformed(f"unknown op {k}")


def n_value(ports, d):
    return sum(1 for p in ports[d] if isinstance(p, tuple) and p[0] == "value")


def other_index(ports, d):
    """offset of the 'other' port in direction d ('in'/'out'), or None"""
    return len(ports[d]) if ports["other_" + d] else None


def port_kind(ports, d, off):
    lst = ports[d]
    if 0 <= off < len(lst):
        return lst[off]
    if off == len(lst) and ports["other_" + d]:
        return ports["other_" + d]
    return None


def inner_signature(op):
    """(input row, output row) canonical, of the dataflow graph a container holds; else None"""
    k = op["op"]
    if k in ("DFG", "Case"):
        return canon(op["signature"]["input"]), canon(op["signature"]["output"])
    if k == "FuncDefn":
        b = op["signature"]["body"]
        return canon(b["input"]), canon(b["output"])
    if k == "DataflowBlock":
        return canon(op["inputs"]), canon([{"t": "Sum", "s": "General", "rows": op["sum_rows"]},
                                           *op["other_outputs"]])
    if k == "TailLoop":
        return canon([*op["just_inputs"], *op["rest"]]), canon(
            [{"t": "Sum", "s": "General", "rows": [op["just_inputs"], op["just_outputs"]]}, *op["rest"]])
    return None


def bound_of(t):
    """least upper bound of a canonical type"""
    k = t.get("t")
    if k == "Q":
        return "A"
    if k in ("I", "G"):
        return "C"
    if k == "Sum":
        rows = sum_rows(t)
        return "A" if any(bound_of(x) == "A" for r in rows for x in r) else "C"
    if k in ("V", "R"):
        return t["b"]
    if k in ("Opaque", "Alias"):
        return t["bound"]
    return "A"


# ----------------------------------------------------------------------------- substitution
def subst(t, args):
    if isinstance(t, list):
        return subst_row(t, args)
    if not isinstance(t, dict):
        return t
    k = t.get("t")
    if k == "V":
        a = args[t["i"]] if t["i"] < len(args) else None
        if a is None:
            return t
        if a["tya"] == "Type":
            return a["ty"]
        if a["tya"] == "Variable" and a["cached_decl"].get("tp") == "Type":
            return {"t": "V", "i": a["idx"], "b": a["cached_decl"]["b"]}
        return t
    if k == "Sum":
        if t["s"] == "Unit":
            return t
        return {"t": "Sum", "s": "General", "rows": [subst_row(r, args) for r in t["rows"]]}
    if k == "G":
        return {**t, "input": subst_row(t["input"], args), "output": subst_row(t["output"], args)}
    if k == "Opaque":
        return {**t, "args": [subst_arg(a, args) for a in t["args"]]}
    return t


def subst_arg(a, args):
    if a["tya"] == "Type":
        return {"tya": "Type", "ty": subst(a["ty"], args)}
    if a["tya"] == "Sequence":
        return {"tya": "Sequence", "elems": [subst_arg(e, args) for e in a["elems"]]}
    if a["tya"] == "Variable" and a["idx"] < len(args):
        return args[a["idx"]]
    return a


def subst_row(row, args):
    out = []
    for t in row:
        if isinstance(t, dict) and t.get("t") == "R":
            a = args[t["i"]] if t["i"] < len(args) else None
            if a is not None and a["tya"] == "Sequence":
                out.extend(e["ty"] if e["tya"] == "Type" else t for e in a["elems"])
                continue
            if a is not None and a["tya"] == "Variable":
                out.append({"t": "R", "i": a["idx"], "b": t["b"]})
                continue
            out.append(t)
        else:
            out.append(subst(t, args))
    return out


def arg_fits(a, p):
    """check_type_arg: does type argument `a` fit parameter `p` (both wire JSON)?"""
    if a["tya"] == "Variable":
        return param_contains(p, a["cached_decl"])
    tp = p["tp"]
    if tp == "Type":
        return a["tya"] == "Type" and (p["b"] == "A" or bound_of(canon(a["ty"])) == "C")
    if tp == "BoundedNat":
        return a["tya"] == "BoundedNat" and (p.get("bound") is None or a["n"] < p["bound"])
    if tp == "String":
        return a["tya"] == "String"
    if tp == "List":
        return a["tya"] == "Sequence" and all(
            arg_fits(e, p["param"]) or (e["tya"] == "Type" and e["ty"].get("t") == "R")
            for e in a["elems"])
    if tp == "Tuple":
        return a["tya"] == "Sequence" and len(a["elems"]) == len(p["params"]) and all(
            arg_fits(e, q) for e, q in zip(a["elems"], p["params"]))
    if tp == "Extensions":
        return a["tya"] == "Extensions"
    return False


def param_contains(p, q):
    if p["tp"] != q["tp"]:
        return False
    tp = p["tp"]
    if tp == "Type":
        return p["b"] == "A" or q["b"] == "C"
    if tp == "BoundedNat":
        return p.get("bound") is None or (q.get("bound") is not None and p["bound"] >= q["bound"])
    if tp == "List":
        return param_contains(p["param"], q["param"])
    if tp == "Tuple":
        return len(p["params"]) == len(q["params"]) and all(
            param_contains(a, b) for a, b in zip(p["params"], q["params"]))
    return True
