"""Shard-side context: seeded RNGs, case registration, discrepancy records, counters."""

from __future__ import annotations

import hashlib
import json
import random
import time
import traceback
from typing import Any, Iterable


def jhash(obj: Any) -> str:
    s = json.dumps(obj, sort_keys=True, default=repr, separators=(",", ":"))
    return hashlib.blake2b(s.encode(), digest_size=7).hexdigest()


def jsonable(obj: Any, depth: int = 0) -> Any:
    """Best-effort conversion to something json.dump accepts (for witnesses)."""
    if depth > 200:
        return repr(obj)[:200]
    if obj is None or isinstance(obj, (bool, int, float, str)):
        if isinstance(obj, float) and (obj != obj or obj in (float("inf"), float("-inf"))):
            return repr(obj)
        return obj
    if isinstance(obj, (list, tuple)):
        return [jsonable(x, depth + 1) for x in obj]
    if isinstance(obj, (set, frozenset)):
        return sorted((jsonable(x, depth + 1) for x in obj), key=repr)
    if isinstance(obj, dict):
        return {str(k): jsonable(v, depth + 1) for k, v in obj.items()}
    return repr(obj)[:400]


MAX_DISC_PER_KEY = 12
MAX_SAMPLES = 4


class Ctx:
    def __init__(self, prop: str, tier: str, seed: int, shard: int, nshards: int):
        self.prop = prop
        self.tier = tier
        self.seed = seed
        self.shard = shard
        self.nshards = nshards
        self.evaluations = 0
        self.nontrivial: set[str] = set()
        self.counters: dict[str, int] = {}
        self.features: dict[str, int] = {}
        self.samples: list[Any] = []
        self.discs: dict[str, list[dict]] = {}
        self.disc_counts: dict[str, int] = {}
        self.states: set[str] = set()
        self.transitions: set[str] = set()
        self.notes: list[str] = []
        self.extra: dict[str, Any] = {}
        self.t0 = time.time()
        self.quick = tier != "thorough"

    # ---- randomness -------------------------------------------------------
    def rng(self, *parts: Any) -> random.Random:
        return random.Random("/".join(map(str, (self.seed, self.prop, *parts))))

    def mine(self, n: int) -> Iterable[int]:
        """Indices in range(n) assigned to this shard."""
        return range(self.shard, n, self.nshards)

    def n(self, quick: int, thorough: int) -> int:
        return quick if self.quick else thorough

    # ---- bookkeeping ------------------------------------------------------
    def case(self, stratum: str, case: Any, nontrivial: bool, feats: Iterable[str] = ()) -> None:
        self.evaluations += 1
        self.count(f"cases:{stratum}")
        if nontrivial:
            self.nontrivial.add(jhash([stratum, case]))
        for f in feats:
            self.features[f] = self.features.get(f, 0) + 1
        if len(self.samples) < MAX_SAMPLES and nontrivial and self.shard == 0:
            self.samples.append({"stratum": stratum, "case": jsonable(case)})

    def count(self, name: str, n: int = 1) -> None:
        self.counters[name] = self.counters.get(name, 0) + n

    def feat(self, name: str, n: int = 1) -> None:
        self.features[name] = self.features.get(name, 0) + n

    def state(self, s: Any) -> str:
        h = s if isinstance(s, str) else jhash(s)
        self.states.add(h)
        return h

    def transition(self, a: str, label: Any, b: str) -> None:
        self.transitions.add(jhash([a, label, b]))

    def disc(self, key: str | None, kind: str, locus: Any, expected: Any, observed: Any,
             stratum: str | None = None, case: Any = None, prop: str | None = None) -> None:
        """Record one atomic discrepancy. key=None means unclassified."""
        k = key or f"unclassified/{kind}"
        p = prop or self.prop
        full = f"{p}/{k}"
        self.disc_counts[full] = self.disc_counts.get(full, 0) + 1
        lst = self.discs.setdefault(full, [])
        if len(lst) < MAX_DISC_PER_KEY:
            lst.append({
                "property": p, "key": k, "classified": key is not None, "kind": kind,
                "locus": jsonable(locus), "expected": jsonable(expected),
                "observed": jsonable(observed), "stratum": stratum,
                "case": jsonable(case), "seed": self.seed, "tier": self.tier,
            })

    def guard(self, stratum: str, case: Any, fn, *args) -> Any:
        """Run an executor; an unexpected exception inside the harness/code is a discrepancy
        of kind 'exception' (executors catch the exceptions they expect themselves)."""
        try:
            return fn(*args)
        except Exception as e:  # noqa: BLE001
            tb = traceback.format_exc(limit=-8)
            frames = traceback.extract_tb(e.__traceback__)
            inner = frames[-1].filename if frames else ""
            in_repo = "/hugr-py/src/" in inner or "site-packages" in inner
            # an exception raised by harness code itself is a harness bug (=> inconclusive),
            # one escaping from the library under a well-formed workload is a discrepancy
            self.disc(None, "exception", type(e).__name__, "no exception", tb[-1500:],
                      stratum=stratum, case=case, prop=None if in_repo else "HARNESS")
            return None

    def result(self) -> dict:
        return {
            "evaluations": self.evaluations,
            "nontrivial": sorted(self.nontrivial),
            "counters": self.counters,
            "features": self.features,
            "samples": self.samples,
            "discs": self.discs,
            "disc_counts": self.disc_counts,
            "states": sorted(self.states),
            "transitions": sorted(self.transitions),
            "notes": self.notes[:20],
            "extra": self.extra,
            "wall_s": time.time() - self.t0,
        }
