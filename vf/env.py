"""Locations, environment for worker processes, dependency bootstrap."""

from __future__ import annotations

import fcntl
import os
import pathlib
import shutil
import subprocess
import sys
import time

VERIF = pathlib.Path(__file__).resolve().parent.parent
REPO = pathlib.Path(os.environ.get("VERIF_REPO_ROOT", "/repo")).resolve()
SRC = REPO / "hugr-py" / "src"
DEPS = VERIF / ".deps"
WORK = VERIF / ".work"
EVIDENCE = pathlib.Path(os.environ.get("VERIF_EVIDENCE_DIR", VERIF / "evidence"))
REPLAYS = VERIF / "replays"
PYTHON = os.environ.get("VERIF_PYTHON", "/venv/bin/python")
GUARD = "HUGR_PY_VERIF"


def seed() -> int:
    try:
        return int(os.environ.get("VERIF_SEED", "0"))
    except ValueError:
        return 0


def ensure_deps() -> None:
    """Install third-party deps offline if setup.sh has not been run (vp run snapshots)."""
    if (DEPS / ".ok").exists():
        return
    VERIF.joinpath(".work").mkdir(exist_ok=True)
    lock = open(VERIF / ".work" / "deps.lock", "w")
    fcntl.flock(lock, fcntl.LOCK_EX)
    try:
        if (DEPS / ".ok").exists():
            return
        subprocess.run(["/bin/bash", str(VERIF / "setup.sh")], check=True,
                       stdout=subprocess.DEVNULL)
    finally:
        fcntl.flock(lock, fcntl.LOCK_UN)
        lock.close()


def new_run_dir(tag: str) -> pathlib.Path:
    WORK.mkdir(exist_ok=True)
    d = WORK / f"{tag}-{os.getpid()}-{int(time.time() * 1000) % 10**9}"
    d.mkdir(parents=True)
    return d


def cleanup(d: pathlib.Path) -> None:
    shutil.rmtree(d, ignore_errors=True)


def worker_env(run_dir: pathlib.Path) -> dict[str, str]:
    env = dict(os.environ)
    env["PYTHONPATH"] = os.pathsep.join([str(SRC), str(VERIF), str(DEPS)])
    env["PYTHONPYCACHEPREFIX"] = str(run_dir / "pyc")
    env["PYTHONHASHSEED"] = "0"
    env["PYTHONDONTWRITEBYTECODE"] = "1"
    env[GUARD] = "1"
    env["VERIF_REPO_ROOT"] = str(REPO)
    env["VERIF_RUN_DIR"] = str(run_dir)
    # interpreter flags of the caller must not change what the monitors do (-O would switch off icontract
    # and the library's own assertions)
    for k in ("PYTHONSTARTUP", "PYTHONOPTIMIZE", "PYTHONINSPECT", "PYTHONWARNINGS", "PYTHONDEBUG", "PYTHONVERBOSE"):
        env.pop(k, None)
    return env


def in_worker_setup() -> None:
    """Called first thing inside a worker: make sure `hugr` resolves to the repo tree."""
    want = str(SRC)
    if want not in sys.path:
        sys.path.insert(0, want)
    for p in (str(VERIF), str(DEPS)):
        if p not in sys.path:
            sys.path.append(p)
