"""Entry point.  Parent mode orchestrates shards, aggregates, decides the verdict and
writes evidence; worker mode (--shard / --replay-worker) runs inside the instrumented
environment with the repo's working tree on sys.path."""

from __future__ import annotations

import argparse
import importlib
import json
import os
import subprocess
import sys
import time
import traceback

from . import env

EXIT_HELD, EXIT_VIOLATION, EXIT_INCONCLUSIVE = 0, 1, 2


def load_known() -> list[dict]:
    p = env.VERIF / "known_findings.json"
    if not p.exists():
        return []
    return json.loads(p.read_text()).get("findings", [])


# --------------------------------------------------------------------------- worker
def worker(args) -> int:
    env.in_worker_setup()
    import faulthandler

    faulthandler.enable()
    from .core import Ctx
    from .reach import Reach

    mod = importlib.import_module(f"vf.props.{args.prop.lower()}")
    ctx = Ctx(args.prop, args.tier, env.seed(), args.shard, args.nshards)
    reach = Reach()
    out = {"ok": False}
    try:
        import hugr  # noqa: F401

        src = os.path.realpath(os.path.dirname(os.path.dirname(hugr.__file__)))
        if src != os.path.realpath(str(env.SRC)):
            raise RuntimeError(f"hugr imported from {src}, expected {env.SRC}")
        reach.arm(list(mod.META.get("reach", [])))
        if args.replay_worker:
            rec = json.loads(open(args.replay_worker).read())
            mod.replay(ctx, rec)
        else:
            mod.run(ctx)
        reach.disarm()
        out = ctx.result()
        out["reach"] = reach.counts
        out["reach_absent"] = reach.absent
        out["ok"] = True
    except BaseException:  # noqa: BLE001
        out = {"ok": False, "error": traceback.format_exc()[-4000:]}
    with open(args.out, "w") as f:
        json.dump(out, f)
    return 0


# --------------------------------------------------------------------------- parent
def spawn(prop, tier, run_dir, shard, nshards, replay=None):
    out = run_dir / f"shard{shard}.json"
    cmd = [env.PYTHON, "-B", "-X", "faulthandler", "-m", "vf.main", prop, "--tier", tier,
           "--shard", str(shard), "--nshards", str(nshards), "--out", str(out)]
    if replay:
        cmd += ["--replay-worker", str(replay)]
    log = open(run_dir / f"shard{shard}.log", "w")
    p = subprocess.Popen(cmd, cwd=str(env.VERIF), env=env.worker_env(run_dir),
                         stdout=log, stderr=subprocess.STDOUT)
    return p, out, log


def aggregate(results: list[dict]) -> dict:
    agg = {"evaluations": 0, "nontrivial": set(), "counters": {}, "features": {},
           "samples": [], "discs": {}, "disc_counts": {}, "states": set(),
           "transitions": set(), "reach": {}, "reach_absent": set(), "notes": [], "extra": {}}
    for r in results:
        agg["evaluations"] += r["evaluations"]
        agg["nontrivial"].update(r["nontrivial"])
        agg["states"].update(r["states"])
        agg["transitions"].update(r["transitions"])
        for k in ("counters", "features", "disc_counts", "reach"):
            for n, v in r.get(k, {}).items():
                agg[k][n] = agg[k].get(n, 0) + v
        agg["reach_absent"].update(r.get("reach_absent", []))
        for k, lst in r["discs"].items():
            cur = agg["discs"].setdefault(k, [])
            cur.extend(lst[: max(0, 12 - len(cur))])
        if len(agg["samples"]) < 5:
            agg["samples"].extend(r["samples"][: 5 - len(agg["samples"])])
        agg["notes"].extend(r.get("notes", []))
        for k, v in r.get("extra", {}).items():
            agg["extra"].setdefault(k, v)
    return agg


def write_evidence(prop, meta, tier, agg, wall, violations, known_hit, inconclusive):
    cov = {
        "evaluations": agg["evaluations"],
        "distinct_nontrivial": len(agg["nontrivial"]),
        "rule": meta["rule"],
        "samples": agg["samples"] or [{"note": "no sample recorded"}],
        "feature_histogram": dict(sorted(agg["features"].items())),
        "monitor_evaluations": {k: v for k, v in sorted(agg["counters"].items())},
        "reach": agg["reach"],
        "reach_absent": sorted(agg["reach_absent"]),
        "known_findings_hit": known_hit,
        "discrepancy_counts": agg["disc_counts"],
        "inconclusive_reasons": inconclusive,
        "verdict": ("violated" if violations else "inconclusive" if inconclusive
                    else "held on what was observed"),
    }
    if agg["states"]:
        cov["states"] = len(agg["states"])
        cov["transitions"] = len(agg["transitions"])
    cov.update(agg["extra"])
    ev = {
        "property_id": prop,
        "tier": tier,
        "seed": env.seed(),
        "level": meta.get("level", "exploration"),
        "coverage": cov,
        "assumptions": meta.get("assumptions", []),
        "wall_s": round(wall, 2),
        "violations": violations,
    }
    env.EVIDENCE.mkdir(parents=True, exist_ok=True)
    path = env.EVIDENCE / f"{prop}.json"
    try:
        sys.path.append(str(env.DEPS))
        import jsonschema

        schema = json.loads(open("/root/.vp/EVIDENCE.schema.json").read())
        jsonschema.Draft202012Validator(schema).validate(ev)
    except FileNotFoundError:
        pass
    except ImportError:
        pass
    except Exception as e:  # noqa: BLE001
        ev["coverage"]["schema_problem"] = str(e)[:300]
    path.write_text(json.dumps(ev, indent=1, sort_keys=False, default=repr))
    return path


def parent(args) -> int:
    t0 = time.time()
    prop = args.prop
    tier = args.tier
    env.ensure_deps()
    run_dir = env.new_run_dir(prop)
    try:
        # META is read in a worker-free way: property modules keep META importable
        # without hugr (they import hugr lazily inside run()).
        mod = importlib.import_module(f"vf.props.{prop.lower()}")
        meta = mod.META
        if args.replay:
            nshards = 1
        else:
            nshards = meta.get("nshards", {}).get(tier, 16) if isinstance(
                meta.get("nshards"), dict) else meta.get("nshards", 16)
        watchdog = meta.get("watchdog_s", {}).get(tier, 900 if tier == "quick" else 5400)
        procs = [spawn(prop, tier, run_dir, i, nshards, replay=args.replay)
                 for i in range(nshards)]
        deadline = time.time() + watchdog
        results, problems = [], []
        for i, (p, out, log) in enumerate(procs):
            try:
                p.wait(timeout=max(1, deadline - time.time()))
            except subprocess.TimeoutExpired:
                p.kill()
                problems.append(f"shard {i}: watchdog after {watchdog}s")
                continue
            finally:
                log.close()
            if not out.exists():
                tail = (run_dir / f"shard{i}.log").read_text()[-1500:]
                problems.append(f"shard {i}: no result (rc={p.returncode}) {tail}")
                continue
            try:
                r = json.loads(out.read_text())
            except ValueError as e:
                problems.append(f"shard {i}: unreadable result file ({e})")
                continue
            if not r.get("ok"):
                problems.append(f"shard {i}: harness error: {r.get('error', '')[-1500:]}")
                continue
            results.append(r)
        agg = aggregate(results)

        known = {(k["property"], k["key"]): k for k in load_known()
                 if k.get("status") == "open"}
        known_hit, viol_keys = [], []
        for full, n in sorted(agg["disc_counts"].items()):
            p_id, key = full.split("/", 1)
            if (p_id, key) in known:
                known_hit.append(full)
            else:
                viol_keys.append(full)

        inconclusive = list(problems)
        if not args.replay:
            for name in meta.get("required", []):
                if agg["counters"].get(name, 0) == 0 and agg["features"].get(name, 0) == 0:
                    inconclusive.append(f"monitor/stratum '{name}' never evaluated")
            for spec, n in agg["reach"].items():
                if n == 0 and spec not in meta.get("reach_optional", []):
                    inconclusive.append(f"anchored function {spec} never reached")
            if agg["evaluations"] == 0:
                inconclusive.append("no cases evaluated")

        for full in [f for f in viol_keys if f.startswith("HARNESS/")]:
            rec = (agg["discs"].get(full) or [{}])[0]
            inconclusive.append(f"harness problem {full} ({agg['disc_counts'][full]}x): "
                                f"{str(rec.get('observed'))[-600:]}")
        viol_keys = [f for f in viol_keys if not f.startswith("HARNESS/")]
        for full in known_hit:
            p_id, key = full.split("/", 1)
            print(f"KNOWN-FINDING: property={p_id} {key}: {known[(p_id, key)]['what']}"
                  f" (seen {agg['disc_counts'][full]}x)")
        own_violations = 0
        env.REPLAYS.mkdir(exist_ok=True)
        for full in viol_keys:
            p_id, key = full.split("/", 1)
            recs = agg["discs"].get(full, [])
            rec = min(recs, key=lambda r: len(json.dumps(r))) if recs else {"property": p_id, "key": key}
            rp = env.REPLAYS / f"{p_id}-{key.replace('/', '_')}-{tier}-s{env.seed()}.json"
            rp.write_text(json.dumps(rec, indent=1, default=repr))
            if p_id == prop:
                own_violations += 1
                print(f"VIOLATION property={p_id} replay={rp}")
                print(f"  key={key} count={agg['disc_counts'][full]} kind={rec.get('kind')}"
                      f" locus={json.dumps(rec.get('locus'))[:200]}")
                print(f"  expected={json.dumps(rec.get('expected'))[:300]}")
                print(f"  observed={json.dumps(rec.get('observed'))[:300]}")
            else:
                print(f"NOTE cross-monitor {p_id} fired ({key}, {agg['disc_counts'][full]}x);"
                      f" see ./check {p_id}  replay={rp}")
        wall = time.time() - t0
        if args.replay:
            if own_violations:
                return EXIT_VIOLATION
            print(f"replay: no unlisted violation reproduced ({len(known_hit)} known)")
            return EXIT_INCONCLUSIVE if problems else EXIT_HELD
        ev = write_evidence(prop, meta, tier, agg, wall, own_violations, known_hit,
                            inconclusive)
        if own_violations:
            return EXIT_VIOLATION
        if inconclusive:
            for r in inconclusive:
                print(f"INCONCLUSIVE property={prop} reason={r}")
            return EXIT_INCONCLUSIVE
        print(f"HELD property={prop} tier={tier} seed={env.seed()} evaluations={agg['evaluations']}"
              f" distinct_nontrivial={len(agg['nontrivial'])} wall={wall:.1f}s evidence={ev}")
        return EXIT_HELD
    finally:
        env.cleanup(run_dir)


def main() -> int:
    ap = argparse.ArgumentParser()
    ap.add_argument("prop")
    ap.add_argument("--tier", default=os.environ.get("VERIF_TIER", "quick"),
                    choices=["quick", "thorough"])
    ap.add_argument("--replay")
    ap.add_argument("--shard", type=int)
    ap.add_argument("--nshards", type=int, default=1)
    ap.add_argument("--out")
    ap.add_argument("--replay-worker")
    args = ap.parse_args()
    args.prop = args.prop.upper()
    if args.shard is not None:
        return worker(args)
    try:
        return parent(args)
    except SystemExit:
        raise
    except BaseException as e:  # noqa: BLE001
        # a crash of the orchestration itself says nothing about the property: inconclusive, never exit 1
        import traceback

        print(f"INCONCLUSIVE property={args.prop} reason=harness crashed in the parent process: "
              f"{type(e).__name__}: {str(e)[:300]}")
        traceback.print_exc()
        return 2


if __name__ == "__main__":
    sys.exit(main())
