"""The HUGR documents the repository's own builder tests produce, captured through the `HUGR_BIN` shim
(tools/hugr-validate-shim): a realistic, hand-written corpus that several properties re-use as an extra
stratum (a case is {"test": pytest id, "doc": document}; `c02.build` loads it with Hugr.load_json)."""

from __future__ import annotations

import json
import os
import subprocess
import sys
import tempfile

TEST_FILES = ("test_hugr_build.py", "test_cfg.py", "test_cond_loop.py", "test_tracked_dfg.py", "test_val.py",
              "test_package.py", "test_custom.py", "test_ops.py", "test_prelude.py", "test_envelope.py")


def documents():
    from vf import env
    from vf.core import jhash

    tests = env.REPO / "hugr-py" / "tests"
    files = [str(tests / f) for f in TEST_FILES if (tests / f).exists()]
    out, seen, recs = [], set(), []
    with tempfile.TemporaryDirectory(dir="/var/tmp", prefix="verif-corpus-") as logdir:
        e = dict(os.environ)
        e["HUGR_BIN"] = str(env.VERIF / "tools" / "hugr-validate-shim")
        e["VERIF_SHIM_LOG"] = logdir
        e["VERIF_SHIM_KEEP_DOCS"] = "1"
        e["PYTHONPATH"] = os.pathsep.join([str(env.SRC), str(env.VERIF / "tools"), str(env.VERIF), str(env.DEPS)])
        subprocess.run([sys.executable, "-B", "-m", "pytest", "-q", "--no-header", "-p", "no:cacheprovider",
                        "-p", "pytest_snapshot_stub", "--continue-on-collection-errors", "-o", "addopts=", *files],
                       cwd=str(env.REPO / "hugr-py"), env=e, capture_output=True, text=True, timeout=900)
        for fn in os.listdir(logdir):
            rec = json.load(open(os.path.join(logdir, fn)))
            for d in rec.get("doc") or []:
                recs.append((rec.get("test", "").split(" ")[0], jhash(d), d))
    # (file names carry process ids: order and de-duplicate on (test id, document) only, so that the corpus -- and the
    # index every case's RNG is derived from -- is the same on every run)
    for test, k, d in sorted(recs, key=lambda x: (x[0], x[1])):
        if k not in seen:
            seen.add(k)
            out.append({"test": test, "doc": d})
    return out
