"""Harness-side hugr helpers shared by the builder workloads: the `verif.test` extension with a
few quantum-style ops, wire helpers.  Imported only inside workers."""

from __future__ import annotations

import functools

EXT_NAME = "verif.test"


@functools.lru_cache(maxsize=None)
def test_ext():
    """Extension with fixed-signature ops used by generated programs."""
    from hugr import ext, tys
    from hugr.std.float import FLOAT_T

    e = ext.Extension(EXT_NAME, ext.Version(0, 1, 0))
    Q, B = tys.Qubit, tys.Bool
    sigs = {
        "H": ([Q], [Q]),
        "CX": ([Q, Q], [Q, Q]),
        "Measure": ([Q], [Q, B]),
        "Rz": ([Q, FLOAT_T], [Q]),
        "Fan3": ([B], [B, B, B]),
        "Nop0": ([], []),
        "Swap": ([B, Q], [Q, B]),
        "QAlloc": ([], [Q]),
        "QFree": ([Q], []),
        "CCX": ([Q, Q, Q], [Q, Q, Q]),
        "And2": ([B, B], [B]),
    }
    for name, (i, o) in sigs.items():
        e.add_op_def(ext.OpDef(name=name, description=f"{name} test op",
                               signature=ext.OpDefSig(tys.FunctionType(list(i), list(o)))))
    # an operation whose signature is computed ("binary"): its type arguments are all it carries
    e.add_op_def(ext.OpDef(name="BinOp", description="computed signature", signature=ext.OpDefSig(None, binary=True)))
    e.add_type_def(ext.TypeDef(name="Lin", description="linear", params=[],
                               bound=ext.ExplicitBound(tys.TypeBound.Any)))
    e.add_type_def(ext.TypeDef(name="Box", description="box", params=[tys.TypeTypeParam(tys.TypeBound.Any)],
                               bound=ext.FromParamsBound([0])))
    return e


OP_SIGS = {  # name -> (n_in, n_out) mirror for oracles (hand-written, not read from the ext)
    "H": (1, 1), "CX": (2, 2), "Measure": (1, 2), "Rz": (2, 1), "Fan3": (1, 3), "Nop0": (0, 0),
    "Swap": (2, 2), "QAlloc": (0, 1), "QFree": (1, 0), "CCX": (3, 3), "And2": (2, 1),
}


def ext_op(name: str):
    """ExtOp instance of a test-extension op."""
    return test_ext().get_op(name).instantiate()


def custom_op(name: str):
    """The same op spelled as a raw Custom (as it comes back from deserialisation)."""
    return ext_op(name).to_custom_op()


def registry(*names):
    """ExtensionRegistry holding the named extensions ('std' expands to all bundled)."""
    from hugr import ext

    reg = ext.ExtensionRegistry()
    for e in extensions(*names):
        reg.add_extension(e)
    return reg


def std_extensions():
    import hugr.std.collections.array as arr
    import hugr.std.collections.list as lst
    import hugr.std.collections.static_array as sarr
    import hugr.std.float as fl
    import hugr.std.int as it
    import hugr.std.logic as lg
    import hugr.std.prelude as pr

    return [pr.PRELUDE_EXTENSION, it.INT_TYPES_EXTENSION, it.INT_OPS_EXTENSION, it.CONVERSIONS_EXTENSION,
            fl.FLOAT_TYPES_EXTENSION, fl.FLOAT_OPS_EXTENSION, lg.EXTENSION, arr.EXTENSION,
            lst.EXTENSION, sarr.EXTENSION]


def extensions(*names):
    out = []
    for n in names:
        if n == "std":
            out.extend(std_extensions())
        elif n == "test":
            out.append(test_ext())
        else:
            out.extend(e for e in std_extensions() + [test_ext()] if e.name == n)
    return out
