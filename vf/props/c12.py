"""C12 — the model export is well scoped and faithful to the HUGR.

Structural monitor on `Hugr.to_model()`: a shadow reader reads the exported tree through exactly
the attributes the Rust binding reads (table parsed from hugr-model/src/v0/ast/python.rs at check
time and compared with the dataclass fields of hugr.model); then regions / ports / link names /
symbols / constants / order hints / metadata are checked against the HUGR's public queries."""

from __future__ import annotations

import dataclasses
import json
import re
from collections import Counter

ID = "C12"
META = {
    "level": "exploration",
    "rule": ("case = module-rooted builder program (JSON AST, + optional metadata / order links); distinct by JSON; "
             "non-trivial as for C01"),
    "required": ["monitor:repo-test-documents", "monitor:binding-contract", "monitor:shadow-read", "monitor:M-HIER", "monitor:M-PORTS",
                 "monitor:M-LINK", "monitor:M-SYM", "monitor:M-CONST", "monitor:M-ORDER", "monitor:M-META", "monitor:M-SIG", "monitor:M-FUNC-BODY", "monitor:export-twice",
                 "feature:const-loaded-again", "feature:function-constant",
                 "feature:call", "feature:order-link", "feature:cfg", "feature:conditional", "feature:metadata",
                 "feature:const-loaded", "feature:unused-output", "feature:poly-func"],
    "reach": ["hugr.model.export:ModelExport.export_node", "hugr.model.export:ModelExport.export_region_dfg",
              "hugr.model.export:ModelExport.export_region_cfg", "hugr.model.export:ModelExport.find_func_input",
              "hugr.model.export:ModelExport.link_name"],
    "assumptions": [
        "signature / type terms of nodes and regions are compared by arity only (the statement is about ports, links, "
        "symbols, hints and metadata); the inlined constant IS compared term by term with hugr-core's export_value "
        "(the `types` argument of core.const.adt, which the reference leaves as a wildcard, is not compared)",
        "the module root's own metadata is not compared (the reference exporter does not export it either)",
        "order links to Input / Output nodes are exempt from the hint rule, as in the reference",
        "textual / binary model encodings are out of reach (native module absent)",
    ],
}


# ------------------------------------------------------------------------------------ binding contract
def parse_binding(src):
    """{class name: [attributes read]} and {class name: constructor arity} from python.rs"""
    reads: dict[str, list] = {}
    ctor: dict[str, int] = {}
    order: dict[str, list] = {}
    blocks = re.split(r"\nimpl<'py> pyo3::", src)
    for b in blocks:
        m = re.match(r"FromPyObject<'py> for (\w+) \{", b)
        if m:
            ty = m.group(1)
            cur = None
            struct_attrs = []
            for ln in b.splitlines():
                a = re.match(r'\s*"(\w+)" =>', ln)
                if a:
                    cur = a.group(1)
                    reads.setdefault(cur, [])
                if "name.to_str()? == \"Splice\"" in ln or re.search(r'==\s*"Splice"', ln):
                    cur = "Splice"
                    reads.setdefault(cur, [])
                for g in re.findall(r'getattr\("(\w+)"\)', ln):
                    if cur is not None:
                        reads[cur].append(g)
                    else:
                        struct_attrs.append(g)
            if struct_attrs and ty not in ("Term", "SeqPart", "Operation"):
                reads[ty] = struct_attrs
            elif struct_attrs and ty == "SeqPart":
                reads.setdefault("Splice", []).extend(struct_attrs)
            continue
        m = re.match(r"IntoPyObject<'py> for &(\w+) \{", b)
        if m:
            for cm in re.finditer(r'py_module\.getattr\("(\w+)"\)\?;\s*py_class\.(call0\(\)|call1\(\((.*?)\)\))',
                                  b, re.S):
                name = cm.group(1)
                if cm.group(2).startswith("call0"):
                    ctor[name] = 0
                    continue
                args = [a.strip() for a in cm.group(3).replace("\n", " ").split(",") if a.strip()]
                ctor[name] = len(args)
                fields = [re.search(r"self\.(?:r#)?(\w+)", a).group(1) for a in args
                          if re.search(r"self\.(?:r#)?(\w+)", a)]
                if len(fields) == len(args):
                    order[name] = fields
    return reads, ctor, order


def binding_contract(ctx):
    import hugr.model as model
    from vf import env

    src = (env.REPO / "hugr-model" / "src" / "v0" / "ast" / "python.rs").read_text()
    reads, ctor, order = parse_binding(src)
    ctx.extra["binding_classes"] = sorted(reads)
    rename = {"type": "type"}
    for name in sorted(set(reads) | set(ctor)):
        ctx.count("monitor:binding-contract")
        case = {"class": name}
        ctx.case("binding", case, True)
        cls = getattr(model, name, None)
        if cls is None or not dataclasses.is_dataclass(cls):
            ctx.disc(None, "model-class-missing", name, "a dataclass in hugr.model", repr(cls), stratum="binding", case=case)
            continue
        fields = [f.name for f in dataclasses.fields(cls)]
        if name in reads and sorted(set(reads[name])) != sorted(fields):
            ctx.disc(None, "model-class-attributes", name, sorted(set(reads[name])), sorted(fields),
                     stratum="binding", case=case)
        if name in ctor and ctor[name] != len(fields):
            ctx.disc(None, "model-class-ctor-arity", name, ctor[name], len(fields), stratum="binding", case=case)
        if name in order and order[name] != fields:
            ctx.disc(None, "model-class-ctor-order", name, order[name], fields, stratum="binding", case=case)
    # the region kind is read through `.value` (0 / 1 / 2) and written through the member names
    msrc = (env.REPO / "hugr-model" / "src" / "v0" / "mod.rs").read_text()
    num = {m.group(2): int(m.group(1)) for m in re.finditer(r"(\d+) => Ok\(Self::(\w+)\)", msrc)}
    names = {m.group(1): m.group(2) for m in re.finditer(r'RegionKind::(\w+) => py_class\.getattr\("(\w+)"\)', msrc)}
    want = {names[k]: num[k] for k in names if k in num}
    ctx.count("monitor:binding-contract")
    case = {"class": "RegionKind"}
    ctx.case("binding", case, True)
    got = {m.name: m.value for m in model.RegionKind}
    if len(want) != 3 or got != want or len(set(got.values())) != len(got) or \
            sorted(model.RegionKind.__members__) != sorted(want):
        ctx.disc(None, "model-region-kind-values", "RegionKind", want,
                 {"members": got, "names": sorted(model.RegionKind.__members__)}, stratum="binding", case=case)
    return reads


# ------------------------------------------------------------------------------------ shadow reader
class Shadow:
    """reads a model tree the way the binding does: getattr of the listed attributes, with the
    extraction types it uses; problems are recorded, not raised"""

    def __init__(self, reads, report):
        self.reads = reads
        self.report = report
        self.n = 0

    def attrs(self, obj):
        name = type(obj).__name__
        out = {}
        if name not in self.reads:
            self.report("unknown-model-class", name, "a class the binding knows", name)
            return out
        for a in self.reads[name]:
            self.n += 1
            try:
                out[a] = getattr(obj, a)
            except AttributeError:
                self.report("missing-attribute", f"{name}.{a}", "present", "AttributeError")
        return out

    def term(self, t, where):
        if type(t).__name__ == "Splice":
            a = self.attrs(t)
            if "seq" in a:
                self.term(a["seq"], where + ".seq")
            return
        a = self.attrs(t)
        n = type(t).__name__
        if n == "Var" and not isinstance(a.get("name"), str):
            self.report("bad-extraction", where + ".name", "str", repr(a.get("name")))
        if n == "Apply":
            if not isinstance(a.get("symbol"), str):
                self.report("bad-extraction", where + ".symbol", "str", repr(a.get("symbol")))
            for i, x in enumerate(self.seq(a.get("args"), where + ".args")):
                self.term(x, f"{where}.args[{i}]")
        if n in ("List", "Tuple"):
            for i, x in enumerate(self.seq(a.get("parts"), where + ".parts")):
                self.term(x, f"{where}.parts[{i}]")
        if n == "Literal":
            v = a.get("value")
            ok = isinstance(v, (str, float, bytes)) or (isinstance(v, int) and 0 <= v < 2 ** 64)
            if not ok:
                self.report("bad-literal", where, "str | u64 | float | bytes", repr(v))
        if n == "Func":
            self.region(a.get("region"), where + ".region")

    def seq(self, x, where):
        if not isinstance(x, (list, tuple)):
            self.report("bad-extraction", where, "a sequence", repr(x)[:80])
            return []
        return list(x)

    def symbol(self, s, where):
        a = self.attrs(s)
        if not isinstance(a.get("name"), str):
            self.report("bad-extraction", where + ".name", "str", repr(a.get("name")))
        for i, p in enumerate(self.seq(a.get("params"), where + ".params")):
            pa = self.attrs(p)
            if not isinstance(pa.get("name"), str):
                self.report("bad-extraction", f"{where}.params[{i}].name", "str", repr(pa.get("name")))
            if "type" in pa:
                self.term(pa["type"], f"{where}.params[{i}].type")
        for i, c in enumerate(self.seq(a.get("constraints"), where + ".constraints")):
            self.term(c, f"{where}.constraints[{i}]")
        if a.get("signature") is not None:
            self.term(a["signature"], where + ".signature")

    def node(self, n, where):
        a = self.attrs(n)
        op = a.get("operation")
        oa = self.attrs(op) if op is not None else {}
        if "symbol" in oa:
            self.symbol(oa["symbol"], where + ".operation.symbol")
        if "value" in oa:
            self.term(oa["value"], where + ".operation.value")
        if "operation" in oa:
            self.term(oa["operation"], where + ".operation.operation")
        for key in ("inputs", "outputs"):
            for i, s in enumerate(self.seq(a.get(key), f"{where}.{key}")):
                if not isinstance(s, str):
                    self.report("bad-extraction", f"{where}.{key}[{i}]", "str", repr(s))
        for i, r in enumerate(self.seq(a.get("regions"), where + ".regions")):
            self.region(r, f"{where}.regions[{i}]")
        for i, m in enumerate(self.seq(a.get("meta"), where + ".meta")):
            self.term(m, f"{where}.meta[{i}]")
        if a.get("signature") is not None:
            self.term(a["signature"], where + ".signature")

    def region(self, r, where):
        import hugr.model as model

        a = self.attrs(r)
        if not isinstance(a.get("kind"), model.RegionKind):
            self.report("bad-extraction", where + ".kind", "RegionKind", repr(a.get("kind")))
        for key in ("sources", "targets"):
            for i, s in enumerate(self.seq(a.get(key), f"{where}.{key}")):
                if not isinstance(s, str):
                    self.report("bad-extraction", f"{where}.{key}[{i}]", "str", repr(s))
        for i, c in enumerate(self.seq(a.get("children"), where + ".children")):
            self.node(c, f"{where}.children[{i}]")
        for i, m in enumerate(self.seq(a.get("meta"), where + ".meta")):
            self.term(m, f"{where}.meta[{i}]")
        if a.get("signature") is not None:
            self.term(a["signature"], where + ".signature")


# ------------------------------------------------------------------------------------ term tables
# neutral form of model terms and the terms expected for serialized types / values, written from
# hugr-core/src/export.rs (export_type_enum, export_type_arg, export_sum_variants, export_value)
ANY = ["any"]


def neutral(t):
    n = type(t).__name__
    if n == "Apply":
        return ["A", t.symbol, [neutral(x) for x in t.args]]
    if n == "List":
        return ["L", [neutral(x) for x in t.parts]]
    if n == "Tuple":
        return ["T", [neutral(x) for x in t.parts]]
    if n == "Literal":
        return ["lit", t.value]
    if n == "Var":
        return ["V", t.name]
    if n == "Splice":
        return ["S", neutral(t.seq)]
    if n == "Func":
        return ["F"]
    return [n]


def tterm(j):
    t = j["t"]
    if t == "Sum":
        rows = [[] for _ in range(j["size"])] if j.get("s") == "Unit" else j["rows"]
        return ["A", "core.adt", [["L", [rowterm(r) for r in rows]]]]
    if t == "G":
        return ["A", "core.fn", [rowterm(j["input"]), rowterm(j["output"])]]
    if t == "Opaque":
        name = f"{j['extension']}.{j['id']}" if j["extension"] else j["id"]
        return ["A", name, [aterm(a) for a in j["args"]]]
    if t == "V":
        return ["V", str(j["i"])]
    if t == "R":
        return ["S", ["V", str(j["i"])]]
    if t == "I":
        return ["A", "prelude.usize", []]
    if t == "Q":
        return ["A", "prelude.qubit", []]
    if t == "Alias":
        return ["A", j["name"], []]
    raise AssertionError(j)


def rowterm(row):
    return ["L", [tterm(x) for x in row]]


def aterm(a):
    k = a["tya"]
    if k == "Type":
        return tterm(a["ty"])
    if k == "BoundedNat":
        return ["lit", a["n"]]
    if k == "String":
        return ["lit", a["arg"]]
    if k in ("Sequence", "List", "Tuple"):
        return ["L", [aterm(x) for x in a["elems"]]]
    if k == "Extensions":
        return ["A", "compat.ext_set", []]
    if k == "Variable":
        return ["V", str(a["idx"])]
    raise AssertionError(a)


def vterm(v):
    from vf.oracles import wire

    k = v["v"]
    if k == "Extension":
        c, pay = v["value"]["c"], v["value"]["v"]
        if c == "ConstInt":
            return ["A", "arithmetic.int.const", [["lit", pay["log_width"]], ["lit", pay["value"]]]]
        if c == "ConstF64":
            return ["A", "arithmetic.float.const_f64", [["lit", pay["value"]]]]
        if c == "ArrayValue":
            return ["A", "collections.array.const", [["lit", len(pay["values"])], tterm(pay["typ"]),
                                                     ["L", [vterm(x) for x in pay["values"]]]]]
        return ["A", "compat.const_json", [tterm(v["typ"]), ["json", {"c": c, "v": pay}]]]
    if k == "Function":
        return ["F"]
    tag, rows, vs = wire.as_sum(v)
    return ["A", "core.const.adt", [["L", [["L", [tterm_c(t) for t in row]] for row in rows]], ANY, ["lit", tag],
                                    ["T", [vterm(x) for x in vs]]]]


def tterm_c(t):
    # as_sum reports field types of Tuple values in canonical form (possibly already canonical dicts)
    return tterm(t)


def term_matches(exp, got):
    """got (neutral form of the exported term) agrees with exp; ANY matches anything, ["json", x] matches a
    string literal holding that JSON value, float literals compare by value and sign"""
    if exp == ANY:
        return True
    if exp and exp[0] == "json":
        if got[0] != "lit" or not isinstance(got[1], str):
            return False
        try:
            return json.loads(got[1]) == json.loads(json.dumps(exp[1]))
        except ValueError:
            return False
    if exp[0] != got[0] or len(exp) != len(got):
        return False
    if exp[0] == "lit":
        return type(exp[1]) is type(got[1]) and json.dumps(exp[1]) == json.dumps(got[1])
    for a, b in zip(exp[1:], got[1:]):
        if isinstance(a, list) and a and isinstance(a[0], list) or (isinstance(a, list) and not a):
            if not isinstance(b, list) or len(a) != len(b) or not all(term_matches(x, y) for x, y in zip(a, b)):
                return False
        elif isinstance(a, list):
            if not isinstance(b, list) or not term_matches(a, b):
                return False
        elif a != b:
            return False
    return True


def function_values(v, t, out):
    """pairs (serialized body, exported Func term) of the function values at matching positions"""
    n = type(t).__name__
    if v["v"] == "Function":
        if n == "Func":
            out.append((v["hugr"], t))
        return
    if v["v"] == "Extension":
        if v["value"]["c"] == "ArrayValue" and n == "Apply" and len(t.args) == 3 and hasattr(t.args[2], "parts"):
            for x, y in zip(v["value"]["v"]["values"], t.args[2].parts):
                function_values(x, y, out)
        return
    if n == "Apply" and len(t.args) == 4 and hasattr(t.args[3], "parts"):
        for x, y in zip(v["vs"], t.args[3].parts):
            function_values(x, y, out)


# ------------------------------------------------------------------------------------ structural checks
def check_export(ctx, h, case, stratum, reads, body_region=None):
    import hugr.model as model
    from hugr import InPort, Node, OutPort, ops
    from vf.oracles import wire
    from vf.oracles.observe import enc_op

    def bad(kind, locus, exp, obs, key=None):
        ctx.disc(key, kind, locus, exp, obs, stratum=stratum, case=case)

    if body_region is None:
        m = h.to_model()
        sh = Shadow(reads, lambda k, loc, e, o: bad(f"shadow[{k}]", loc, e, o))
        ma = sh.attrs(m)
        sh.region(ma.get("root"), "root")
        ctx.count("monitor:shadow-read", sh.n)
        # exporting is a pure query: a second export of the same HUGR gives the same module
        ctx.count("monitor:export-twice")
        if repr(h.to_model()) != repr(m):
            bad("second-export-differs", "to_model() twice", "the same module", "differs")
        # the package entry point exports each module as the module's own export (a second module alongside must not
        # disturb it: exporters share nothing)
        from hugr.package import Package

        ctx.count("monitor:package-export")
        pm = Package([h, h], []).to_model()
        mods = getattr(pm, "modules", None)
        if not isinstance(mods, list) or len(mods) != 2 or any(repr(x) != repr(m) for x in mods):
            bad("package-export-differs", "Package([h, h]).to_model()", "two copies of the module's export",
                "differs" if isinstance(mods, list) else repr(type(pm)))

    ports_of = {}

    def P(n):
        if n.idx not in ports_of:
            ports_of[n.idx] = wire.op_ports({"parent": 0, **enc_op(h[n].op)})
        return ports_of[n.idx]

    listed = []      # (hugr port, name, side) with side "prod" | "cons"
    sym_of = {}      # hugr function node idx -> exported symbol name
    calls = []       # (hugr node, applied symbol)
    keys = {}        # hugr node idx -> order key literal
    hints = {}       # hugr parent idx -> set of (ka, kb)

    def meta_terms(metas):
        out = {"json": {}, "key": None, "order": set(), "other": []}
        for t in metas:
            if isinstance(t, model.Apply) and t.symbol == "compat.meta_json" and len(t.args) == 2:
                out["json"][t.args[0].value] = t.args[1].value
            elif isinstance(t, model.Apply) and t.symbol == "core.order_hint.key" and len(t.args) == 1:
                out["key"] = t.args[0].value
            elif isinstance(t, model.Apply) and t.symbol == "core.order_hint.order" and len(t.args) == 2:
                out["order"].add((t.args[0].value, t.args[1].value))
            else:
                out["other"].append(t)
        return out

    def walk_node(n, mn, where):
        op = h[n].op
        pt = P(n)
        # ---- M-META
        ctx.count("monitor:M-META")
        mt = meta_terms(mn.meta)
        want_md = {k: v for k, v in h[n].metadata.items()}
        got_md = {}
        for k, v in mt["json"].items():
            try:
                got_md[k] = json.loads(v)
            except Exception:  # noqa: BLE001
                got_md[k] = f"<unparseable {v!r}>"
        if got_md != json.loads(json.dumps(want_md)):
            bad("M-META", n.idx, want_md, got_md)
        if want_md:
            ctx.feat("feature:metadata")
        keys[n.idx] = mt["key"]
        # ---- M-PORTS
        if isinstance(op, (ops.FuncDefn, ops.FuncDecl, ops.AliasDecl, ops.AliasDefn)):
            nin = nout = 0
        elif isinstance(op, ops.DataflowBlock):
            nin, nout = 1, len(pt["out"])
        else:
            nin, nout = wire.n_value(pt, "in"), wire.n_value(pt, "out")
        ctx.count("monitor:M-PORTS")
        if len(mn.inputs) != nin or len(mn.outputs) != nout:
            key = None
            bad("M-PORTS", [n.idx, type(op).__name__], [nin, nout], [len(mn.inputs), len(mn.outputs)], key)
        # ---- M-SIG: the node's signature term has one entry per listed port
        sg = mn.signature
        if isinstance(sg, model.Apply) and sg.symbol == "core.fn" and len(sg.args) == 2 \
                and all(isinstance(a, model.List) for a in sg.args) \
                and not any(isinstance(x, model.Splice) for a in sg.args for x in a.parts):
            ctx.count("monitor:M-SIG")
            if [len(sg.args[0].parts), len(sg.args[1].parts)] != [nin, nout]:
                bad("M-SIG", [n.idx, type(op).__name__], [nin, nout],
                    [len(sg.args[0].parts), len(sg.args[1].parts)])
        for i, name in enumerate(mn.inputs[:nin]):
            listed.append((InPort(n, i), name, "cons"))
        for i, name in enumerate(mn.outputs[:nout]):
            listed.append((OutPort(n, i), name, "prod"))
            if not list(h.linked_ports(OutPort(n, i))):
                ctx.feat("feature:unused-output")
        # ---- operation-specific
        mop = mn.operation
        # M-OP: the exported node is of the kind hugr-core's exporter writes for the operation (export.rs,
        # export_node_shallow): containers keep their kind -- that is what "mirrors the hierarchy" means for a node
        # that holds regions --, everything else is a custom operation named after what it is
        want_kind = {ops.DFG: "Dfg", ops.CFG: "Cfg", ops.DataflowBlock: "Block", ops.TailLoop: "TailLoop",
                     ops.Conditional: "Conditional", ops.FuncDefn: "DefineFunc", ops.FuncDecl: "DeclareFunc",
                     ops.AliasDecl: "DeclareAlias", ops.AliasDefn: "DefineAlias"}.get(type(op), "CustomOp")
        ctx.count("monitor:M-OP")
        if type(mop).__name__ != want_kind:
            bad("M-OP", [n.idx, type(op).__name__], want_kind, type(mop).__name__)
        elif want_kind == "CustomOp":
            t_ = mop.operation
            sym = t_.symbol if isinstance(t_, model.Apply) else None
            want_sym = None
            if isinstance(op, ops.Tag):
                want_sym = "core.make_adt"
                tagarg = t_.args[-1] if isinstance(t_, model.Apply) and t_.args else None
                if not (isinstance(tagarg, model.Literal) and tagarg.value == op.tag):
                    bad("M-OP", [n.idx, "Tag", "tag"], op.tag, repr(tagarg)[:80])
            elif isinstance(op, ops.CallIndirect):
                want_sym = "core.call_indirect"
            elif isinstance(op, (ops.Custom, ops.ExtOp)) or isinstance(op, ops.AsExtOp):
                c_ = op if isinstance(op, ops.Custom) else op.ext_op.to_custom_op() if not isinstance(op, ops.ExtOp) \
                    else op.to_custom_op()
                want_sym = f"{c_.extension}.{c_.op_name}"
                ctx.feat("feature:custom-op-symbol")
            if want_sym is not None and sym != want_sym:
                bad("M-OP", [n.idx, type(op).__name__, "symbol"], want_sym, repr(sym))
        if isinstance(op, (ops.FuncDefn, ops.FuncDecl)):
            want_cls = model.DefineFunc if isinstance(op, ops.FuncDefn) else model.DeclareFunc
            if not isinstance(mop, want_cls):
                bad("M-HIER", [n.idx, "operation"], want_cls.__name__, type(mop).__name__)
            else:
                sym_of[n.idx] = mop.symbol.name
                if len(mop.symbol.params) != len(op.signature.params):
                    bad("M-SYM", [n.idx, "params"], len(op.signature.params), len(mop.symbol.params))
                if op.signature.params:
                    ctx.feat("feature:poly-func")
        if isinstance(op, (ops.Call, ops.LoadFunc)):
            ctx.feat("feature:call")
            t = mop.operation if isinstance(mop, model.CustomOp) else None
            want_sym = "core.call" if isinstance(op, ops.Call) else "core.load_const"
            if not isinstance(t, model.Apply) or t.symbol != want_sym or not t.args \
                    or not isinstance(t.args[-1], model.Apply):
                bad("M-SYM", [n.idx, "operation"], want_sym + "(..., <function>)", repr(t)[:120])
            else:
                calls.append((n, t.args[-1].symbol))
        if isinstance(op, ops.LoadConst):
            ctx.count("monitor:M-CONST")
            ctx.feat("feature:const-loaded")
            t = mop.operation if isinstance(mop, model.CustomOp) else None
            srcs = list(h.linked_ports(InPort(n, 0)))
            if len(srcs) == 1 and isinstance(h[srcs[0].node].op, ops.Const):
                # expected term computed from the *serialized* constant (hugr-core export_value), not
                # from the exporter's own Value.to_model
                vj = enc_op(h[srcs[0].node].op)["v"]
                want = vterm(vj)
                got = neutral(t.args[1]) if isinstance(t, model.Apply) and len(t.args) == 2 else None
                if not isinstance(t, model.Apply) or t.symbol != "core.load_const" or got is None \
                        or not term_matches(want, got):
                    bad("M-CONST", n.idx, json.dumps(want)[:300], json.dumps(got, default=repr)[:300])
                else:
                    if len(list(h.linked_ports(OutPort(srcs[0].node, 0)))) > 1:
                        ctx.feat("feature:const-loaded-again")
                    fvs = []
                    function_values(vj, t.args[1], fvs)
                    for body_doc, ft in fvs:
                        # the body of a function constant is a region of its own: same structural rules
                        from hugr import Hugr

                        ctx.count("monitor:M-FUNC-BODY")
                        ctx.feat("feature:function-constant")
                        hb = Hugr.load_json(json.dumps(body_doc))
                        check_export(ctx, hb, case, stratum, reads, body_region=ft.region)
        # ---- regions
        ch = h.children(n)
        if isinstance(op, ops.Conditional):
            ctx.feat("feature:conditional")
            if len(mn.regions) != len(ch):
                bad("M-HIER", [n.idx, "regions"], len(ch), len(mn.regions))
            for c, r in zip(ch, mn.regions):
                walk_dfg(c, r, f"{where}/case{c.idx}")
        elif isinstance(op, ops.CFG):
            ctx.feat("feature:cfg")
            if len(mn.regions) != 1:
                bad("M-HIER", [n.idx, "regions"], 1, len(mn.regions))
            else:
                walk_cfg(n, mn.regions[0], where)
        elif isinstance(op, (ops.DFG, ops.FuncDefn, ops.TailLoop, ops.DataflowBlock)):
            if len(mn.regions) != 1:
                bad("M-HIER", [n.idx, "regions"], 1, len(mn.regions))
            else:
                walk_dfg(n, mn.regions[0], where)
        elif mn.regions:
            bad("M-HIER", [n.idx, "regions"], 0, len(mn.regions))

    def walk_children(parent, region, exclude, where):
        ch = [c for c in h.children(parent) if not isinstance(h[c].op, exclude)]
        ctx.count("monitor:M-HIER")
        if len(region.children) != len(ch):
            bad("M-HIER", [parent.idx, "children"], [c.idx for c in ch], len(region.children))
        for c, mn in zip(ch, region.children):
            walk_node(c, mn, f"{where}/{c.idx}")
        return ch

    def walk_dfg(parent, region, where):
        if getattr(region.kind, "value", None) != 0 or region.kind.name != "DATA_FLOW":
            bad("M-HIER", [parent.idx, "kind"], "DATA_FLOW (value 0)", repr(region.kind))
        kids = h.children(parent)
        inp = next((c for c in kids if isinstance(h[c].op, ops.Input)), None)
        out = next((c for c in kids if isinstance(h[c].op, ops.Output)), None)
        ni = len(h[inp].op.types) if inp is not None else 0
        no = len(h[out].op.types) if out is not None else 0
        ctx.count("monitor:M-PORTS")
        if len(region.sources) != ni or len(region.targets) != no:
            bad("M-PORTS", [parent.idx, "region sources/targets"], [ni, no],
                [len(region.sources), len(region.targets)])
        for i, name in enumerate(region.sources[:ni]):
            listed.append((OutPort(inp, i), name, "prod"))
        for i, name in enumerate(region.targets[:no]):
            listed.append((InPort(out, i), name, "cons"))
        walk_children(parent, region, (ops.Input, ops.Output, ops.Const), where)
        hints[parent.idx] = meta_terms(region.meta)["order"]

    def walk_cfg(parent, region, where):
        if getattr(region.kind, "value", None) != 1 or region.kind.name != "CONTROL_FLOW":
            bad("M-HIER", [parent.idx, "kind"], "CONTROL_FLOW (value 1)", repr(region.kind))
        kids = h.children(parent)
        entry, exit_ = kids[0], kids[1]
        ctx.count("monitor:M-PORTS")
        if len(region.sources) != 1 or len(region.targets) != 1:
            bad("M-PORTS", [parent.idx, "cfg region sources/targets"], [1, 1],
                [len(region.sources), len(region.targets)])
        for name in region.sources[:1]:
            listed.append((InPort(entry, 0), name, "prod-entry"))
        for name in region.targets[:1]:
            listed.append((InPort(exit_, 0), name, "cons"))
        walk_children(parent, region, (ops.ExitBlock, ops.Const), where)

    if body_region is not None:
        walk_dfg(h.root, body_region, "fn")
    else:
        root_region = m.root
        if getattr(root_region.kind, "value", None) != 2 or root_region.kind.name != "MODULE":
            bad("M-HIER", "root", "MODULE (value 2)", repr(root_region.kind))
        walk_children(h.root, root_region, (ops.Const,), "")

    # ---- M-LINK: same name <=> joined by an edge; hyperedge rule
    ctx.count("monitor:M-LINK")
    parent_of: dict = {}

    def find(x):
        while parent_of.setdefault(x, x) != x:
            parent_of[x] = parent_of[parent_of[x]]
            x = parent_of[x]
        return x

    listed_ports = {}
    for port, name, side in listed:
        k = (type(port).__name__, port.node.idx, port.offset)
        if side == "prod-entry":
            # the region's source is the control input of the entry block: same port as the one the
            # entry block lists itself
            pass
        listed_ports.setdefault(k, []).append((name, side))
        find(k)
    for s, t in h.links():
        a, b = ("OutPort", s.node.idx, s.offset), ("InPort", t.node.idx, t.offset)
        if a in listed_ports and b in listed_ports:
            parent_of[find(a)] = find(b)
    by_name: dict = {}
    for k, lst in listed_ports.items():
        names = {nm for nm, _ in lst}
        if len(names) > 1:
            bad("M-LINK", list(k), "one link name per port", sorted(names))
        for nm, side in lst:
            by_name.setdefault(nm, set()).add(k)
    class_of_name = {}
    for nm, ks in by_name.items():
        classes = {find(k) for k in ks}
        if len(classes) > 1:
            bad("M-LINK", nm, "ports sharing a name are joined by an edge",
                sorted(map(list, ks))[:6])
        class_of_name[nm] = next(iter(classes))
    names_of_class: dict = {}
    for nm, c in class_of_name.items():
        names_of_class.setdefault(c, set()).add(nm)
    for c, nms in names_of_class.items():
        if len(nms) > 1:
            bad("M-LINK", sorted(nms), "one name per edge-connected class", f"{len(nms)} names")
    for nm, ks in by_name.items():
        prods = [k for k in ks if k[0] == "OutPort" or any(sd == "prod-entry" for n2, sd in listed_ports[k])]
        cons = [k for k in ks if k not in prods]
        # a block's control input listed by the block and as the region source is one consumer-side port
        if len(prods) > 1 and len(cons) > 1:
            bad("M-LINK", nm, "one producer-side or one consumer-side port", [len(prods), len(cons)])
    # ---- M-SYM
    for n, sym in calls:
        ctx.count("monitor:M-SYM")
        off = len(P(n)["in"]) - 1
        srcs = list(h.linked_ports(InPort(n, off)))
        if len(srcs) != 1:
            continue
        f = srcs[0].node.idx
        if f not in sym_of:
            bad("M-SYM", n.idx, f"symbol of node {f} defined in the module", "callee not exported")
        elif sym_of[f] != sym:
            bad("M-SYM", n.idx, sym_of[f], sym)
    dup = [s for s, c in Counter(sym_of.values()).items() if c > 1]
    if dup:
        bad("M-SYM", "symbols", "unique symbol names", dup)
    # ---- M-ORDER
    for s, t in h.links():
        if s.offset != -1:
            continue
        a, b = s.node, t.node
        if isinstance(h[a].op, ops.Input) or isinstance(h[b].op, ops.Output):
            continue
        if h[a].parent is None or h[b].parent is None or h[a].parent.idx != h[b].parent.idx:
            continue
        ctx.count("monitor:M-ORDER")
        ctx.feat("feature:order-link")
        ka, kb = keys.get(a.idx), keys.get(b.idx)
        par = h[a].parent.idx
        if ka is None or kb is None:
            bad("M-ORDER", [a.idx, b.idx], "order keys on both nodes", [ka, kb])
        elif (ka, kb) not in hints.get(par, set()):
            bad("M-ORDER", [a.idx, b.idx], f"core.order_hint.order({ka}, {kb}) in the meta of region {par}",
                sorted(hints.get(par, set()))[:5])
    all_keys = [k for k in keys.values() if k is not None]
    if len(all_keys) != len(set(all_keys)):
        bad("M-ORDER", "keys", "distinct order keys", "duplicates")


def check_case(ctx, case, reads, stratum="program"):
    from vf.props import c02

    h, _ = c02.build(case)
    check_export(ctx, h, case, stratum, reads)
    nn = len(h)
    if nn % 2:
        # the HUGR is changed after it has been exported (still valid and module-rooted: metadata written on every
        # third node, a function declaration added) and exported again: everything is judged anew
        from hugr import ops, tys

        ctx.count("monitor:export-after-change")
        for k, n in enumerate(list(h)):
            if k % 3 == 1:
                h[n].metadata["written-after-export"] = k
            elif k % 3 == 2 and k % 2:
                h[n].metadata = {"replaced-as-a-whole": k}     # (the record itself exchanged, not edited)
        h.add_node(ops.FuncDecl("declared.after.export", tys.PolyFuncType([], tys.FunctionType([tys.Bool], []))),
                   h.root, metadata={"late": True})
        # ... and the bodies of function-valued constants (the value object stays, its HUGR changes)
        from hugr import val as _val

        def fvals(v_):
            if isinstance(v_, _val.Function):
                yield v_
            for x_ in getattr(v_, "vals", None) or []:
                yield from fvals(x_)

        for n in list(h):
            if isinstance(h[n].op, ops.Const):
                for fv in fvals(h[n].op.val):
                    ctx.feat("feature:function-constant-body-changed-between-exports")
                    for bn in list(fv.body):
                        fv.body[bn].metadata["body-changed-after-export"] = bn.idx
                    fv.body.add_node(ops.Custom("added.after.export", tys.FunctionType([], []), extension="verif.late"),
                                     fv.body.root, metadata={"late": True})
        check_export(ctx, h, case, stratum, reads)
    return nn


def run(ctx):
    from vf.gen.prog import gen_program
    from vf.props import c02
    from vf.props.c01 import nontrivial

    reads = ctx.guard("binding", {"class": "all"}, binding_contract, ctx) if ctx.shard == 0 else None
    if reads is None:
        from vf import env

        reads, _, _ = parse_binding((env.REPO / "hugr-model" / "src" / "v0" / "ast" / "python.rs").read_text())
    if ctx.shard == 1 % ctx.nshards:
        from vf.repo_corpus import documents

        for c in (ctx.guard("repo-doc", None, documents) or []):
            if c["doc"]["nodes"][0]["op"] != "Module":
                continue
            ctx.count("monitor:repo-test-documents")
            ctx.guard("repo-doc", c, check_case, ctx, c, reads, "repo-doc")
            ctx.case("repo-doc", c, len(c["doc"]["nodes"]) >= 6)
    for i in ctx.mine(ctx.n(1500, 50000)):
        r = ctx.rng("program", i)
        case = {"prog": gen_program(r, kind="module", budget=30, force=("rowpoly-call",) if i % 6 == 0 else ())}
        if r.random() < 0.4:
            case["md"] = c02.gen_md(r)
        nn = ctx.guard("program", case, check_case, ctx, case, reads)
        ctx.case("program", case, nn is not None and nontrivial(case["prog"], nn))


def replay(ctx, rec):
    from vf import env

    reads, _, _ = parse_binding((env.REPO / "hugr-model" / "src" / "v0" / "ast" / "python.rs").read_text())
    if rec.get("stratum") == "binding":
        binding_contract(ctx)
    else:
        check_case(ctx, rec["case"], reads)
