"""C11 — extension resolution is conservative, idempotent and invisible on the wire.

Metamorphic monitor: a structural view of a type expression / op is taken before resolution; the
view expected after resolution is computed by the rule 'an Opaque(ext, id) becomes the
definition-backed form exactly when the registry holds ext with a type id — at every depth —
and nothing else changes'; it must equal the view of what `resolve` returned.  Invariance of
the serialized document, the exported model, signatures, port types and bounds; idempotence."""

from __future__ import annotations

import json

ID = "C11"
META = {
    "level": "exploration",
    "rule": ("case = {type descriptor | program AST, registry spec}; distinct by JSON; non-trivial when the expression / "
             "HUGR holds >= 2 opaque occurrences at different depths and the registry resolves a non-empty subset"),
    "required": ["monitor:type-resolve", "monitor:hugr-resolve", "monitor:wire-invariance", "monitor:model-invariance",
                 "monitor:idempotence", "monitor:model-compared", "monitor:hugr-model-compared", "feature:partial-registry", "feature:empty-registry",
                 "feature:missing-def", "feature:opaque-inside-opaque-args", "feature:resolved-op",
                 "feature:unresolved-op", "feature:polyfunc", "feature:perturbed-runtime-reqs", "feature:computed-signature-op", "feature:lookalike-names",
                 "monitor:second-registry", "feature:opaque-inside-resolved-type"],
    "reach": ["hugr.tys:Opaque.resolve", "hugr.ops:Custom.resolve", "hugr.hugr.base:Hugr.resolve_extensions",
              "hugr.tys:Sum.resolve", "hugr.tys:FunctionType.resolve", "hugr.ext:ExtensionRegistry.get_extension"],
    "assumptions": [
        "an operation's free-text description is masked in the wire comparison (the one licence of the statement)",
        "model export is compared by dataclass equality of the exported trees (or equal exception class)",
    ],
}


# ------------------------------------------------------------------------------------ structural views
def aview(a):
    from hugr import tys

    if isinstance(a, tys.TypeTypeArg):
        return ["t", tview(a.ty)]
    if isinstance(a, tys.SequenceArg):
        return ["seq", [aview(x) for x in a.elems]]
    return ["arg", repr(a)]


def tview(t):
    from hugr import tys

    if isinstance(t, tys.Opaque):
        return ["Opaque", t.extension, t.id, [aview(a) for a in t.args], t.bound.value]
    if isinstance(t, tys.ExtType):
        return ["ExtType", t.type_def.get_extension().name, t.type_def.name, [aview(a) for a in t.args]]
    if isinstance(t, tys.Sum):
        return ["Sum", [[tview(x) for x in row] for row in t.variant_rows]]
    if isinstance(t, tys.FunctionType):
        return ["Fn", [tview(x) for x in t.input], [tview(x) for x in t.output], sorted(t.runtime_reqs)]
    if isinstance(t, tys.PolyFuncType):
        return ["Poly", [repr(p) for p in t.params], tview(t.body)]
    return ["leaf", repr(t)]


def expected(v, has_type):
    """view after resolution, by the rule"""
    k = v[0]
    if k == "Opaque":
        args = [expected_arg(a, has_type) for a in v[3]]
        if has_type(v[1], v[2]):
            return ["ExtType", v[1], v[2], args]
        return ["Opaque", v[1], v[2], args, v[4]]
    if k == "ExtType":
        return ["ExtType", v[1], v[2], [expected_arg(a, has_type) for a in v[3]]]
    if k == "Sum":
        return ["Sum", [[expected(x, has_type) for x in row] for row in v[1]]]
    if k == "Fn":
        return ["Fn", [expected(x, has_type) for x in v[1]], [expected(x, has_type) for x in v[2]], v[3]]
    if k == "Poly":
        return ["Poly", v[1], expected(v[2], has_type)]
    return v


def expected_arg(a, has_type):
    if a[0] == "t":
        return ["t", expected(a[1], has_type)]
    if a[0] == "seq":
        return ["seq", [expected_arg(x, has_type) for x in a[1]]]
    return a


def count_opaque(v, depth=0, out=None):
    out = [] if out is None else out
    if isinstance(v, list):
        if v and v[0] == "Opaque":
            out.append(depth)
        for x in v:
            count_opaque(x, depth + 1, out)
    return out


# ------------------------------------------------------------------------------------ registries
def make_registry(spec, extra_exts):
    """spec: {"exts": {name: {"types": [..]|"all", "ops": [..]|"all"}}}; extra_exts: name -> Extension object
    that holds the full definitions (std + harness + generated)."""
    from hugr import ext

    reg = ext.ExtensionRegistry()
    for name, sel in spec["exts"].items():
        full = extra_exts.get(name)
        if full is None:
            continue
        if sel.get("types") == "all" and sel.get("ops") == "all":
            reg.add_extension(full)
            continue
        e = ext.Extension(name, full.version)
        for tn, td in full.types.items():
            if sel.get("types") == "all" or tn in sel.get("types", []):
                e.add_type_def(ext.TypeDef(td.name, td.description, list(td.params), td.bound))
        for on, od in full.operations.items():
            if sel.get("ops") == "all" or on in sel.get("ops", []):
                e.add_op_def(ext.OpDef(od.name, ext.OpDefSig(od.signature.poly_func, od.signature.binary),
                                       od.description, dict(od.misc)))
        reg.add_extension(e)
    return reg


def gen_registry_spec(r, universe):
    """universe: {ext name: {"types": [...], "ops": [...]}}"""
    mode = r.choice(["empty", "single", "subset", "complete", "missing-defs", "missing-defs"])
    names = sorted(universe)
    spec = {"mode": mode, "exts": {}}
    if mode == "empty" or not names:
        return spec
    if mode == "single":
        n = r.choice(names)
        spec["exts"][n] = {"types": "all", "ops": "all"}
    elif mode == "subset":
        for n in r.sample(names, r.randint(1, len(names))):
            spec["exts"][n] = {"types": "all", "ops": "all"}
    elif mode == "complete":
        for n in names:
            spec["exts"][n] = {"types": "all", "ops": "all"}
    else:
        for n in names:
            u = universe[n]
            spec["exts"][n] = {"types": r.sample(u["types"], r.randint(0, len(u["types"]))) if u["types"] else [],
                               "ops": r.sample(u["ops"], r.randint(0, len(u["ops"]))) if u["ops"] else []}
    return spec


def has_fns(spec, universe):
    def has_type(e, t):
        sel = spec["exts"].get(e)
        if sel is None or e not in universe:
            return False
        return (sel["types"] == "all" and t in universe[e]["types"]) or (sel["types"] != "all" and t in sel["types"])

    def has_op(e, o):
        sel = spec["exts"].get(e)
        if sel is None or e not in universe:
            return False
        return (sel["ops"] == "all" and o in universe[e]["ops"]) or (sel["ops"] != "all" and o in sel["ops"])

    return has_type, has_op


def all_exts(builder_ext=None):
    from vf import hx

    d = {e.name: e for e in hx.std_extensions()}
    d[hx.test_ext().name] = hx.test_ext()
    if builder_ext is not None:
        d[builder_ext.name] = builder_ext
    return d


# ------------------------------------------------------------------------------------ type expressions
def check_type_case(ctx, case, stratum="type"):
    from hugr import tys
    from vf.gen.types import Builder

    d, spec = case["ty"], case["reg"]
    B1 = Builder()
    t_full = B1.ty(d)          # populates B1.ext with the generated TypeDefs
    x = Builder(opaque=True).ty(d)
    if case.get("wrap") == "poly":
        x = tys.PolyFuncType([tys.TypeTypeParam(tys.TypeBound.Any)], tys.FunctionType([x], [x, tys.Bool]))
        ctx.feat("feature:polyfunc")
    elif case.get("wrap") == "endo":
        # a function type whose output row EQUALS its input row without being written the same way (the empty tuple and
        # the unit sum, a general sum of two empty rows and Bool): resolution must not mistake one row for the other
        x = tys.FunctionType([x, tys.Tuple(), tys.Sum([[], []])], [x, tys.Unit, tys.Bool])
        ctx.feat("feature:equal-rows-spelled-differently")
    elif case.get("wrap") == "arg":
        x = tys.Opaque("Outer", tys.TypeBound.Any, [tys.TypeTypeArg(x), tys.SequenceArg([tys.TypeTypeArg(x)])],
                       "unknown.ext")
    exts = all_exts(B1.ext)
    universe = {n: {"types": sorted(e.types), "ops": sorted(e.operations)} for n, e in exts.items()}
    reg = make_registry(spec, exts)
    has_type, _ = has_fns(spec, universe)
    before = tview(x)
    want = expected(before, has_type)
    ctx.count("monitor:type-resolve")
    ctx.feat({"empty": "feature:empty-registry", "missing-defs": "feature:missing-def"}.get(
        spec["mode"], "feature:partial-registry" if spec["mode"] != "complete" else "feature:complete-registry"))
    depths = count_opaque(before)
    if any(isinstance(v, list) for v in [before]) and _opaque_in_opaque_args(before):
        ctx.feat("feature:opaque-inside-opaque-args")

    def bad(kind, locus, exp, obs):
        ctx.disc(None, kind, locus, exp, obs, stratum=stratum, case=case)

    j0 = x._to_serial_root().model_dump(mode="json") if not isinstance(x, tys.PolyFuncType) \
        else x._to_serial().model_dump(mode="json")
    y = x.resolve(reg)
    got = tview(y)
    if got != want:
        from vf.oracles.observe import diff

        p = diff(want, got)[0]
        bad("type-resolution-rule", p[0], p[1], p[2])
    if tview(x) != before:
        bad("resolve-mutates-argument", "original", "unchanged", "changed")
    ctx.count("monitor:wire-invariance")
    j1 = y._to_serial_root().model_dump(mode="json") if not isinstance(y, tys.PolyFuncType) \
        else y._to_serial().model_dump(mode="json")
    if j1 != j0:
        from vf.oracles.observe import diff

        p = diff(j0, j1)[0]
        bad("type-wire-changed", p[0], p[1], p[2])
    if x.type_bound() != y.type_bound():
        bad("type-bound-changed", "type_bound", x.type_bound().value, y.type_bound().value)
    ctx.count("monitor:model-invariance")
    m0, m1 = _model(x), _model(y)
    ctx.count("monitor:model-compared" if not m0.startswith("raises ") else "model-export-raised:" + m0[7:] + ":" + type(x).__name__)
    if m0 != m1:
        bad("type-model-changed", "to_model", m0 if isinstance(m0, str) else "model A", m1 if isinstance(m1, str) else "model B")
    ctx.count("monitor:idempotence")
    z = y.resolve(reg)
    if tview(z) != got:
        bad("resolve-not-idempotent", "resolve(resolve(x))", "== resolve(x)", "differs")
    if case.get("reg2") is not None:
        # second stage: the (now partly definition-backed) result is resolved against ANOTHER registry -- opaque types
        # left inside the arguments of an already definition-backed type are within "every depth" too
        spec2 = case["reg2"]
        reg2 = make_registry(spec2, exts)
        has_type2, _ = has_fns(spec2, universe)
        mixed = _opaque_under_exttype(got)
        if mixed:
            ctx.feat("feature:opaque-inside-resolved-type")
        ctx.count("monitor:second-registry")
        want2 = expected(got, has_type2)
        y2 = y.resolve(reg2)
        got2 = tview(y2)
        if got2 != want2:
            from vf.oracles.observe import diff

            p = diff(want2, got2)[0]
            bad("type-resolution-rule[second-registry]", p[0], p[1], p[2])
        j2 = y2._to_serial_root().model_dump(mode="json") if not isinstance(y2, tys.PolyFuncType) \
            else y2._to_serial().model_dump(mode="json")
        if j2 != j0:
            from vf.oracles.observe import diff

            p = diff(j0, j2)[0]
            bad("type-wire-changed[second-registry]", p[0], p[1], p[2])
        if _model(y2) != m0:
            bad("type-model-changed[second-registry]", "to_model", m0, _model(y2))
        if y2.type_bound() != x.type_bound():
            bad("type-bound-changed[second-registry]", "type_bound", x.type_bound().value, y2.type_bound().value)
    hits = sum(1 for _ in _resolved_positions(before, has_type))
    return len(depths) >= 2 and len(set(depths)) >= 2 and hits >= 1


def _opaque_under_exttype(v, inside=False):
    if isinstance(v, list):
        if v and v[0] == "Opaque" and inside:
            return True
        if v and v[0] == "ExtType":
            return any(_opaque_under_exttype(a, True) for a in v[3])
        return any(_opaque_under_exttype(x, inside) for x in v)
    return False


def _opaque_in_opaque_args(v, inside=False):
    if isinstance(v, list):
        if v and v[0] == "Opaque":
            if inside:
                return True
            return any(_opaque_in_opaque_args(a, True) for a in v[3])
        return any(_opaque_in_opaque_args(x, inside) for x in v)
    return False


def _resolved_positions(v, has_type):
    if isinstance(v, list):
        if v and v[0] == "Opaque" and has_type(v[1], v[2]):
            yield v
        for x in v:
            yield from _resolved_positions(x, has_type)


def _model(t):
    try:
        return repr(t.to_model())
    except Exception as e:  # noqa: BLE001
        return f"raises {type(e).__name__}"


# ------------------------------------------------------------------------------------ HUGRs
def mask_desc(j):
    if isinstance(j, dict):
        return {k: ("<masked>" if k == "description" and j.get("op") == "Extension" else mask_desc(v))
                for k, v in j.items()}
    if isinstance(j, list):
        return [mask_desc(v) for v in j]
    return j


def check_hugr_case(ctx, case, stratum="hugr"):
    from hugr import Hugr, Node, ops
    from vf.interp import Interp
    from vf.props.c05 import facts

    prog, spec = case["prog"], case["reg"]
    h0 = Interp().run(prog)
    s = h0.to_json()
    if case.get("reqs_seed") is not None:
        # a loaded document need not carry exactly [own extension] as an op's runtime requirements
        # (other writers add more, fewer or none): perturb them before loading
        import random

        rr = random.Random(case["reqs_seed"])
        doc = json.loads(s)
        for nd in doc["nodes"]:
            if nd["op"] == "Extension" and rr.random() < 0.6:
                own = nd["extension"]
                nd["signature"]["runtime_reqs"] = rr.choice(
                    [[], [own, "other.ext"], ["other.ext"], ["z.ext", own, "a.ext"], [own, own]])
                ctx.feat("feature:perturbed-runtime-reqs")
        s = json.dumps(doc)
    h = Hugr.load_json(s)
    if case.get("plant_binary"):
        # opaque operations whose DEFINITION has a computed signature (no type scheme): their type arguments are
        # resolved like everybody else's
        from hugr import tys

        ctx.feat("feature:computed-signature-op")
        C = tys.TypeBound.Copyable
        i5 = tys.Opaque(id="int", bound=C, args=[tys.BoundedNatArg(5)], extension="arithmetic.int.types")
        f64 = tys.Opaque(id="float64", bound=C, args=[], extension="arithmetic.float.types")
        arr = tys.Opaque(id="array", bound=C, args=[tys.BoundedNatArg(2), tys.TypeTypeArg(i5)],
                         extension="collections.array")
        box = tys.Opaque(id="Box", bound=C, args=[tys.TypeTypeArg(f64)], extension="verif.test")  # (from-params bound of a copyable argument)
        h.add_node(ops.Custom("new_array", tys.FunctionType([i5, i5], [arr]), "", "collections.array",
                              [tys.BoundedNatArg(2), tys.TypeTypeArg(i5)]), h.root)
        h.add_node(ops.Custom("BinOp", tys.FunctionType([box], [f64]), "", "verif.test",
                              [tys.TypeTypeArg(box), tys.SequenceArg([tys.TypeTypeArg(arr), tys.StringArg("s")])]),
                   h.root)
        # ... also where nothing in the SIGNATURE is there to resolve (phantom arguments)
        h.add_node(ops.Custom("BinOp", tys.FunctionType([tys.Bool], [tys.Bool]), "", "verif.test",
                              [tys.TypeTypeArg(i5), tys.TypeTypeArg(arr)]), h.root)
        h.add_node(ops.Custom("Not", tys.FunctionType([tys.Bool, tys.Bool], [tys.Bool]), "", "logic",
                              [tys.TypeTypeArg(f64)]), h.root)
    if case.get("plant_lookalike"):
        # opaque operations / types whose NAME only resembles a defined one (qualified with the extension's name,
        # other case, padded): the registry holds no definition "of that name", they stay as they are
        from hugr import tys

        ctx.feat("feature:lookalike-names")
        C = tys.TypeBound.Copyable
        for e_, n_ in (("logic", "logic.Not"), ("logic", "not"), ("logic", "Not "), ("logic", " Not"),
                       ("arithmetic.int", "arithmetic.int.iadd"), ("verif.test", "verif.test.BinOp")):
            h.add_node(ops.Custom(n_, tys.FunctionType([tys.Bool], [tys.Bool]), "", e_, []), h.root)
        look = tys.Opaque(id="arithmetic.int.types.int", bound=C, args=[tys.BoundedNatArg(5)],
                          extension="arithmetic.int.types")
        look2 = tys.Opaque(id="Float64", bound=C, args=[], extension="arithmetic.float.types")
        h.add_node(ops.Custom("Not", tys.FunctionType([look], [look2]), "", "logic", [tys.TypeTypeArg(look)]), h.root)
    exts = all_exts()
    universe = {n: {"types": sorted(e.types), "ops": sorted(e.operations)} for n, e in exts.items()}
    reg = make_registry(spec, exts)
    has_type, has_op = has_fns(spec, universe)
    ctx.feat({"empty": "feature:empty-registry", "missing-defs": "feature:missing-def"}.get(
        spec["mode"], "feature:partial-registry" if spec["mode"] != "complete" else "feature:complete-registry"))

    def bad(kind, locus, exp, obs):
        ctx.disc(None, kind, locus, exp, obs, stratum=stratum, case=case)

    before_ops = {n.idx: h[n].op for n in h}
    before_views = {}
    for i, op in before_ops.items():
        if isinstance(op, ops.Custom):
            before_views[i] = (op.extension, op.op_name, tview(op.signature), [aview(a) for a in op.args])
    d0 = json.loads(h.to_json())
    m0 = _hugr_model(h)
    f0 = {i: facts(op) for i, op in before_ops.items() if isinstance(op, ops.Custom)}
    ctx.count("monitor:hugr-resolve")
    r = h.resolve_extensions(reg)
    if r is not h:
        # the statement does not say whether resolution happens in place: judge the HUGR that is returned
        ctx.count("observed:resolve_extensions-returned-another-object")
        from hugr import Hugr

        if not isinstance(r, Hugr):
            bad("resolve_extensions-return", "return value", "a Hugr", repr(type(r)))
        else:
            h = r
    n_opaque = 0
    hits = 0
    for n in h:
        op = h[n].op
        b = before_ops[n.idx]
        if n.idx not in before_views:
            if op is not b:
                bad("non-opaque-op-replaced", n.idx, repr(b), repr(op))
            continue
        e, name, sigv, argv = before_views[n.idx]
        n_opaque += 1
        if has_op(e, name):
            hits += 1
            ctx.feat("feature:resolved-op")
            if not isinstance(op, ops.ExtOp):
                bad("op-not-resolved", [n.idx, e, name], "ExtOp", type(op).__name__)
                continue
            od = op.op_def()
            if od.name != name or od.get_extension().name != e or od is not reg.get_extension(e).get_op(name):
                bad("op-resolved-to-wrong-def", [n.idx, e, name], f"{e}.{name} of the registry", repr(od))
            if tview(op.outer_signature())[:3] != expected(sigv, has_type)[:3]:
                bad("op-signature-resolution-rule", [n.idx, e, name], expected(sigv, has_type)[:3],
                    tview(op.outer_signature())[:3])
            if [aview(a) for a in op.args] != [expected_arg(a, has_type) for a in argv]:
                bad("op-args-resolution-rule", [n.idx, e, name], [expected_arg(a, has_type) for a in argv],
                    [aview(a) for a in op.args])
        else:
            ctx.feat("feature:unresolved-op")
            if op is not b and not (isinstance(op, ops.Custom) and tview(op.signature) == sigv):
                bad("op-resolved-without-def", [n.idx, e, name], "left untouched", repr(op))
        fa = facts(op)
        if fa != f0[n.idx]:
            diffs = sorted(k for k in fa if fa[k] != f0[n.idx].get(k))
            bad("derived-facts-changed", [n.idx, diffs], {k: f0[n.idx].get(k) for k in diffs},
                {k: fa[k] for k in diffs})
    ctx.count("monitor:wire-invariance")
    d1 = json.loads(h.to_json())
    if mask_desc(d1) != mask_desc(d0):
        from vf.oracles.observe import diff

        p = diff(mask_desc(d0), mask_desc(d1))[0]
        bad("hugr-wire-changed", p[0], p[1], p[2])
    # the one licence: an operation's description may be replaced BY ITS DEFINITION'S -- by nothing else, and only where
    # the operation was resolved
    ctx.count("monitor:description-licence")
    for i, (n0, n1) in enumerate(zip(d0["nodes"], d1["nodes"])):
        if n0.get("op") != "Extension" or n1.get("op") != "Extension":
            continue
        allowed = {n0.get("description", "")}
        if has_op(n0["extension"], n0["name"]):
            allowed.add(reg.get_extension(n0["extension"]).get_op(n0["name"]).description)
        if n1.get("description", "") not in allowed:
            bad("description-replaced-by-something-else", [i, n0["extension"], n0["name"]], sorted(allowed),
                n1.get("description", ""))
    ctx.count("monitor:model-invariance")
    m1 = _hugr_model(h)
    ctx.count("monitor:hugr-model-compared" if not m0.startswith("raises ") else "hugr-model-export-raised")
    if m0 != m1:
        bad("hugr-model-changed", "to_model()", m0[:200] if isinstance(m0, str) else "model", m1[:200])
    ctx.count("monitor:idempotence")
    ops1 = {n.idx: h[n].op for n in h}
    h.resolve_extensions(reg)
    for n in h:
        a, b = ops1[n.idx], h[n].op
        if isinstance(a, ops.ExtOp) or isinstance(b, ops.ExtOp):
            if type(a) is not type(b) or a.op_def() is not b.op_def() or tview(a.outer_signature()) != tview(
                    b.outer_signature()) or [aview(x) for x in a.args] != [aview(x) for x in b.args]:
                bad("resolve-not-idempotent", n.idx, repr(a), repr(b))
    if mask_desc(json.loads(h.to_json())) != mask_desc(d1):
        bad("resolve-not-idempotent-wire", "to_json", "unchanged", "changed")
    return n_opaque >= 2 and hits >= 1


def _hugr_model(h):
    try:
        return repr(h.to_model())
    except Exception as e:  # noqa: BLE001
        return f"raises {type(e).__name__}: {str(e)[:80]}"


def run(ctx):
    from vf.gen.prog import gen_program
    from vf.gen.types import Gen

    maxd = ctx.n(3, 4)
    for i in ctx.mine(ctx.n(6000, 200000)):
        r = ctx.rng("type", i)
        g = Gen(r, allow_vars=True)
        d = g.ty(r.randint(1, maxd))
        # universe for the spec generator: std + harness + the generated defs of this descriptor
        from vf import hx

        universe = {e.name: {"types": sorted(e.types), "ops": []} for e in hx.std_extensions()}
        universe.setdefault("verif.test", {"types": [], "ops": []})
        universe["verif.test"]["types"] = sorted(set(universe["verif.test"]["types"]) | set(g._defs))
        case = {"ty": d, "reg": gen_registry_spec(r, universe), "wrap": r.choice([None, None, "poly", "arg", "endo"])}
        if i % 2:
            case["reg2"] = gen_registry_spec(r, universe)
        nt = ctx.guard("type", case, check_type_case, ctx, case)
        ctx.case("type", case, bool(nt))
    for i in ctx.mine(ctx.n(600, 20000)):
        r = ctx.rng("hugr", i)
        from vf import hx

        universe = {e.name: {"types": sorted(e.types), "ops": sorted(e.operations)}
                    for e in [*hx.std_extensions(), hx.test_ext()]}
        case = {"prog": gen_program(r, kind="module", budget=25), "reg": gen_registry_spec(r, universe),
                "reqs_seed": f"{ctx.seed}/{i}" if i % 2 else None, "plant_binary": i % 3 == 0, "plant_lookalike": i % 3 == 1}
        nt = ctx.guard("hugr", case, check_hugr_case, ctx, case)
        ctx.case("hugr", case, bool(nt))


def replay(ctx, rec):
    if rec.get("stratum") == "hugr":
        check_hugr_case(ctx, rec["case"])
    else:
        check_type_case(ctx, rec["case"])
