"""C04 — the HUGR graph store agrees with a sequential port-multigraph model.

Lock-step: every step of a history is applied to the real Hugr and to the model
(vf/oracles/store.py); after every step all public queries are compared.  The structural
invariant of the internal shape is walked at the same points.  Strata: bounded-exhaustive short
histories on a 3-node alphabet, random collision-heavy histories (with insert_hugr), and the
builder-program corpus (invariant only)."""

from __future__ import annotations

import itertools

ID = "C04"
META = {
    "level": "exploration",
    "rule": ("case = history of store calls (JSON); distinct by JSON; non-trivial when it has >= 4 applied mutating "
             "calls and reaches a state with a multi-linked port or a freed index"),
    "required": ["monitor:lockstep-step", "monitor:invariant", "cases:exhaustive", "cases:random",
                 "feature:multi-linked-port", "feature:index-reuse", "feature:delete-middle-of-fanout",
                 "feature:insert_hugr", "feature:delete-node-with-order-link", "feature:parallel-duplicate-link"],
    "reach": ["hugr.hugr.base:Hugr._add_node", "hugr.hugr.base:Hugr.add_link", "hugr.hugr.base:Hugr.delete_link",
              "hugr.hugr.base:Hugr.delete_node", "hugr.hugr.base:Hugr.insert_hugr",
              "hugr.hugr.base:Hugr._unused_sub_offset"],
    "assumptions": [
        "only leaf nodes are deleted; offsets from {-1,0,1,2,3}; <= 8 (quick) / 10 (thorough) live nodes",
        "empty per-port entries of incoming_links/outgoing_links are ignored; num_incoming/num_outgoing and the "
        "order of linked ports are not compared",
        "an insert_hugr that raises ParentBeforeChild ends the history (the partial state is not judged)",
    ],
    "nshards": {"quick": 16, "thorough": 16},
}


def lockstep(ctx, hist, stratum):
    from vf.gen.histories import Exec
    from vf.oracles import store

    info = {"applied": 0, "multi": False, "reuse": False}
    prev = [None]

    def on_step(ex, i, st):
        info["applied"] += 1
        ctx.count("monitor:lockstep-step")
        e = ex.m.expect()
        o = store.observe(ex.h)

        def report(q, exp, obs):
            ctx.disc(None, f"query[{q}]", {"step": i, "op": st[:1] + [x for x in st[1:] if not isinstance(x, list)]},
                     exp, obs, stratum=stratum, case=hist)

        store.compare(e, o, ex.m, report)
        # handle stability: every live handle still denotes its node
        for k, hd in enumerate(ex.handles):
            if k in ex.dead:
                try:
                    ex.h[hd]
                    alive_again = hd.idx in ex.m.nodes
                    if not alive_again:
                        report("deleted-node-reachable", "KeyError", f"node {hd.idx} still reachable")
                except KeyError:
                    pass
        ctx.count("monitor:invariant")
        if not store.invariant(ex.h, lambda q, exp, obs: ctx.disc(
                None, f"invariant[{q}]", {"step": i}, exp, obs, stratum=stratum, case=hist)):
            ctx.count("invariant-absent")
        # features / states
        if any(sum(c.values()) > 1 for c in list(e["out"].values()) + list(e["inc"].values())):
            info["multi"] = True
            ctx.feat("feature:multi-linked-port")
        if any(c > 1 for c in e["links"].values()):
            ctx.feat("feature:parallel-duplicate-link")
        if st[0] in ("add_node", "add_const") and ex.handles[-1].idx < max(ex.m.nodes):
            info["reuse"] = True
            ctx.feat("feature:index-reuse")
        if st[0] == "insert":
            ctx.feat("feature:insert_hugr")
        cur = ctx.state(ex.m.state_key())
        if prev[0] is not None:
            ctx.transition(prev[0], st[0], cur)
        prev[0] = cur

    ex = Exec()
    # feature detection that needs the pre-state
    orig_step = ex.step

    def step(st):
        if st[0] == "delete_link":
            s, t = ex.node(st[1]).idx, ex.node(st[3]).idx
            fan = [l for l in ex.m.links if l[0] == s and l[1] == st[2]]
            if len(fan) >= 3 and (s, st[2], t, st[4]) in fan[:-1]:
                ctx.feat("feature:delete-middle-of-fanout")
        if st[0] == "delete_node":
            n = ex.node(st[1]).idx
            if any(l[1] == -1 and (l[0] == n or l[2] == n) for l in ex.m.links):
                ctx.feat("feature:delete-node-with-order-link")
        orig_step(st)

    ex.step = step
    ex.on_step = on_step
    ex.run(hist)
    if ex.ended:
        ctx.count("history-ended:" + ex.ended)
    return info["applied"] >= 4 and (info["multi"] or info["reuse"])


def alphabet():
    """steps over root(0) and two pre-created children A(1), B(2)"""
    al = []
    for s in (1, 2):
        for t in (1, 2):
            for so in (0, 1):
                for to in (0, 1):
                    al.append(["add_link", s, so, t, to])
                    al.append(["delete_link", s, so, t, to])
            al.append(["add_order_link", s, t])
            al.append(["delete_link", s, -1, t, -1])
    al += [["delete_node", 1], ["delete_node", 2], ["add_node", 0, None, None], ["add_node", 1, 1, None]]
    return al


PRE = [["add_node", 0, None, None], ["add_node", 0, 2, None]]


def run(ctx):
    from vf.gen.histories import gen_history

    al = alphabet()
    maxlen = 3 if ctx.quick else 4
    idx = 0
    for n in range(1, maxlen + 1):
        for tail in itertools.product(al, repeat=n):
            idx += 1
            if idx % ctx.nshards != ctx.shard:
                continue
            hist = PRE + [list(s) for s in tail]
            nt = ctx.guard("exhaustive", hist, lockstep, ctx, hist, "exhaustive")
            ctx.case("exhaustive", hist, bool(nt))
    ctx.extra["exhaustive_subspace"] = (
        f"all histories of length <= {maxlen} over {len(al)} steps on 2 pre-created nodes + root "
        f"({sum(len(al) ** n for n in range(1, maxlen + 1))} histories)")
    for i in ctx.mine(ctx.n(4000, 150000)):
        r = ctx.rng("random", i)
        hist = gen_history(r, max_steps=ctx.n(30, 80), max_nodes=ctx.n(8, 10), metadata=True)
        nt = ctx.guard("random", hist, lockstep, ctx, hist, "random")
        ctx.case("random", hist, bool(nt))


def replay(ctx, rec):
    lockstep(ctx, rec["case"], rec.get("stratum") or "random")
