"""C04 — the HUGR graph store agrees with a sequential port-multigraph model.

Lock-step: every step of a history is applied to the real Hugr and to the model
(vf/oracles/store.py); after every step all public queries are compared.  The structural
invariant of the internal shape is walked at the same points.  Strata: bounded-exhaustive short
histories on a 3-node alphabet, random collision-heavy histories (with insert_hugr), and the
builder-program corpus (invariant only)."""

from __future__ import annotations

import itertools

ID = "C04"
META = {
    "level": "exploration",
    "rule": ("case = history of store calls (JSON); distinct by JSON; non-trivial when it has >= 4 applied mutating "
             "calls and reaches a state with a multi-linked port or a freed index"),
    "required": ["monitor:lockstep-step", "monitor:invariant", "cases:exhaustive", "cases:random", "cases:program",
                 "monitor:repo-tests-under-contracts",
                 "feature:multi-linked-port", "feature:index-reuse", "feature:delete-middle-of-fanout",
                 "feature:insert_hugr", "feature:delete-node-with-order-link", "feature:parallel-duplicate-link",
                 "monitor:has_link", "monitor:delete_node-result", "feature:order-port-to-value-port-link"],
    "reach": ["hugr.hugr.base:Hugr._add_node", "hugr.hugr.base:Hugr.add_link", "hugr.hugr.base:Hugr.delete_link",
              "hugr.hugr.base:Hugr.delete_node", "hugr.hugr.base:Hugr.insert_hugr",
              "hugr.hugr.base:Hugr._unused_sub_offset"],
    "assumptions": [
        "only leaf nodes are deleted; offsets from {-1,0,1,2,3}; <= 8 (quick) / 10 (thorough) live nodes",
        "empty per-port entries of incoming_links/outgoing_links are ignored; num_incoming/num_outgoing and the "
        "order of linked ports are not compared",
        "an insert_hugr that raises ParentBeforeChild ends the history (the partial state is not judged)",
    ],
    "nshards": {"quick": 16, "thorough": 16},
    "watchdog_s": {"quick": 1800, "thorough": 21600},
}


def lockstep(ctx, hist, stratum):
    from vf.gen.histories import Exec
    from vf.oracles import store

    info = {"applied": 0, "multi": False, "reuse": False}
    prev = [None]

    def on_step(ex, i, st):
        info["applied"] += 1
        ctx.count("monitor:lockstep-step")
        e = ex.m.expect()
        o = store.observe(ex.h)

        def report(q, exp, obs):
            ctx.disc(None, f"query[{q}]", {"step": i, "op": st[:1] + [x for x in st[1:] if not isinstance(x, list)]},
                     exp, obs, stratum=stratum, case=hist)

        store.compare(e, o, ex.m, report)
        ctx.count("monitor:has_link", store.check_has_link(ex.h, ex.m, report))
        store.check_metadata(ex.h, ex.m, report)
        if st[0] == "delete_node":
            # "Returns: the deleted node data"
            ctx.count("monitor:delete_node-result")
            before, ret = ex.deleted
            if ret is not before:
                report("delete_node-result", "the node data that was stored", repr(ret)[:120])
        if st[0] == "add_link" and (st[2] == -1) != (st[4] == -1):
            ctx.feat("feature:order-port-to-value-port-link")
        # handle stability: every live handle still denotes its node
        for k, hd in enumerate(ex.handles):
            if k in ex.dead:
                try:
                    ex.h[hd]
                    alive_again = hd.idx in ex.m.nodes
                    if not alive_again:
                        report("deleted-node-reachable", "KeyError", f"node {hd.idx} still reachable")
                except KeyError:
                    pass
        ctx.count("monitor:invariant")
        if not store.invariant(ex.h, lambda q, exp, obs: ctx.disc(
                None, f"invariant[{q}]", {"step": i}, exp, obs, stratum=stratum, case=hist)):
            ctx.count("invariant-absent")
        # features / states
        if any(sum(c.values()) > 1 for c in list(e["out"].values()) + list(e["inc"].values())):
            info["multi"] = True
            ctx.feat("feature:multi-linked-port")
        if any(c > 1 for c in e["links"].values()):
            ctx.feat("feature:parallel-duplicate-link")
        if st[0] in ("add_node", "add_const") and ex.handles[-1].idx < max(ex.m.nodes):
            info["reuse"] = True
            ctx.feat("feature:index-reuse")
        if st[0] == "insert":
            ctx.feat("feature:insert_hugr")
        cur = ctx.state(ex.m.state_key())
        if prev[0] is not None:
            ctx.transition(prev[0], st[0], cur)
        prev[0] = cur

    ex = Exec()
    # feature detection that needs the pre-state
    orig_step = ex.step

    def step(st):
        if st[0] == "delete_link":
            s, t = ex.node(st[1]).idx, ex.node(st[3]).idx
            fan = [l for l in ex.m.links if l[0] == s and l[1] == st[2]]
            if len(fan) >= 3 and (s, st[2], t, st[4]) in fan[:-1]:
                ctx.feat("feature:delete-middle-of-fanout")
        if st[0] == "delete_node":
            n = ex.node(st[1]).idx
            if any(l[1] == -1 and (l[0] == n or l[2] == n) for l in ex.m.links):
                ctx.feat("feature:delete-node-with-order-link")
        orig_step(st)

    ex.step = step
    ex.on_step = on_step
    ex.run(hist)
    if ex.ended:
        ctx.count("history-ended:" + ex.ended)
    return info["applied"] >= 4 and (info["multi"] or info["reuse"])


def program_stratum(ctx):
    """every HUGR a builder program builds is a history for the store: walk the structural invariant
    (and the BiMap inverse property, reported to C18) after every interpreted statement"""
    from vf.gen.prog import gen_program
    from vf.interp import Interp
    from vf.oracles import store

    for i in ctx.mine(ctx.n(300, 8000)):
        r = ctx.rng("program", i)
        p = gen_program(r, budget=30)

        def hook(h, p=p):
            ctx.count("monitor:invariant")
            store.invariant(h, lambda q, exp, obs: ctx.disc(
                None, f"invariant[{q}]", "builder program", exp, obs, stratum="program", case=p))
            links = getattr(h, "_links", None)
            if links is not None and hasattr(links, "fwd") and hasattr(links, "bck"):
                ctx.count("cross:C18-bimap-inverse")
                if links.bck != {v: k for k, v in links.fwd.items()}:
                    ctx.disc(None, "bimap-not-inverse", "Hugr._links under a builder program", "bck == inverse(fwd)",
                             "differs", stratum="program", case=p, prop="C18")

        def go():
            it = Interp(hook=hook)
            h = it.run(p)
            # final agreement of the public link queries with each other
            o = store.observe(h)
            out = {}
            for (s, so, t, to), c in o["links"].items():
                out.setdefault((s, so), {}).setdefault((t, to), 0)
                out[(s, so)][(t, to)] += c
            got = {k: dict(v) for k, v in o["out"].items()}
            if got != out:
                ctx.disc(None, "query[links() vs linked_ports]", "builder program", "agree", "disagree",
                         stratum="program", case=p)

        ctx.guard("program", p, go)
        ctx.case("program", p, True)


def repo_tests_under_contracts(ctx):
    import json
    import os
    import subprocess
    import sys

    from vf import env

    log = os.path.abspath(os.path.join(os.environ.get("PYTHONPYCACHEPREFIX", "/var/tmp"), "..", "contracts.json"))
    e = dict(os.environ)
    e["VERIF_CONTRACT_LOG"] = log
    e["PYTHONPATH"] = os.pathsep.join([str(env.SRC), str(env.VERIF / "tools"), str(env.VERIF), str(env.DEPS)])
    e["HUGR_BIN"] = str(env.VERIF / "tools" / "hugr-validate-shim")
    subprocess.run([sys.executable, "-B", "-m", "pytest", "-q", "--no-header", "-p", "no:cacheprovider",
                    "-p", "pytest_snapshot_stub", "-p", "pytest_verif_contracts", "-o", "addopts=",
                    "--continue-on-collection-errors", str(env.REPO / "hugr-py" / "tests")],
                   cwd=str(env.REPO / "hugr-py"), env=e, capture_output=True, text=True, timeout=600)
    if not os.path.exists(log):
        ctx.notes.append("repo tests under contracts produced no log")
        return
    rec = json.load(open(log))
    ctx.count("monitor:repo-tests-under-contracts", rec["store_evals"])
    ctx.count("cross:C18-bimap-inverse", rec["bimap_evals"])
    for v in rec["violations"][:10]:
        ctx.disc(None, f"contract[{v['contract']}]", v["where"], "contract holds while the repo's tests run",
                 v["detail"], stratum="repo-tests", case={"test": v.get("test")},
                 prop="C18" if v["contract"] == "BiMap" else None)


def alphabet():
    """steps over root(0) and two pre-created children A(1), B(2)"""
    al = []
    for s in (1, 2):
        for t in (1, 2):
            for so in (0, 1):
                for to in (0, 1):
                    al.append(["add_link", s, so, t, to])
                    al.append(["delete_link", s, so, t, to])
            al.append(["add_order_link", s, t])
            al.append(["delete_link", s, -1, t, -1])
    al += [["delete_node", 1], ["delete_node", 2], ["add_node", 0, None, None], ["add_node", 1, 1, None]]
    return al


PRE = [["add_node", 0, None, None], ["add_node", 0, 2, None]]


def run(ctx):
    from vf.gen.histories import gen_history

    al = alphabet()
    maxlen = 3 if ctx.quick else 4
    idx = 0
    for n in range(1, maxlen + 1):
        for tail in itertools.product(al, repeat=n):
            idx += 1
            if idx % ctx.nshards != ctx.shard:
                continue
            hist = PRE + [list(s) for s in tail]
            nt = ctx.guard("exhaustive", hist, lockstep, ctx, hist, "exhaustive")
            ctx.case("exhaustive", hist, bool(nt))
    ctx.extra["exhaustive_subspace"] = (
        f"all histories of length <= {maxlen} over {len(al)} steps on 2 pre-created nodes + root "
        f"({sum(len(al) ** n for n in range(1, maxlen + 1))} histories)")
    ctx.guard("program", None, program_stratum, ctx)
    if ctx.shard == 2 % ctx.nshards:
        ctx.guard("repo-tests", None, repo_tests_under_contracts, ctx)
    # (thorough: 40 000 random histories of up to 60 steps beside the 3.8 M exhaustive ones -- with the queries added
    # per step since, 150 000 x 80 no longer finished in two hours on 16 cores)
    for i in ctx.mine(ctx.n(4000, 40000)):
        r = ctx.rng("random", i)
        hist = gen_history(r, max_steps=ctx.n(30, 60), max_nodes=ctx.n(8, 10), metadata=True, mixed=True)
        nt = ctx.guard("random", hist, lockstep, ctx, hist, "random")
        ctx.case("random", hist, bool(nt))


def replay(ctx, rec):
    if rec.get("stratum") in ("program", "repo-tests"):
        from vf.interp import Interp
        from vf.oracles import store

        if rec.get("stratum") == "program":
            Interp(hook=lambda h: store.invariant(h, lambda q, e, o: ctx.disc(
                None, f"invariant[{q}]", "builder program", e, o, stratum="program", case=rec["case"]))).run(rec["case"])
        return
    lockstep(ctx, rec["case"], rec.get("stratum") or "random")
