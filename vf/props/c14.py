"""C14 — constants inhabit the type they report.

Oracle: JSON-level `inhabits` (vf/oracles/wire.py, from constant.rs) on the serialized value;
the reported type (`type_()`, dumped) must equal both the type computed from the descriptor by
the generator and the type the serialized value carries; helper constructors must yield the
documented tag; Const / LoadConst built by `DfBase.load` must agree on that type."""

from __future__ import annotations

import json

ID = "C14"
META = {
    "level": "exploration",
    "rule": ("case = [target type descriptor, value descriptor]; distinct by JSON; non-trivial when value "
             "nesting depth >= 2 or it is an array/list/static-array constant with >= 1 element"),
    "required": ["monitor:inhabits", "monitor:decoded-value", "monitor:reported-type", "monitor:helper-tag", "monitor:const-load", "monitor:program-load",
                 "feature:func-value", "feature:array", "feature:sugar", "monitor:selftest-negative", "monitor:func-root-signature",
                 "monitor:embedded-elements", "feature:one-shot-iterables", "monitor:const-replaced"],
    "reach": ["hugr.val:Sum.type_", "hugr.val:Function.type_", "hugr.build.dfg:DfBase.load",
              "hugr.std.int:IntVal.to_value", "hugr.std.collections.array:ArrayVal.to_value"],
    "assumptions": [
        "only well-typed value expressions are generated (tags in range, fields per variant row)",
        "value depth <= 3 (quick) / 5 (thorough); integer widths 0..6, non-negative values",
    ],
}

EXPECT_TAG = {"some": 1, "none": 0, "left": 0, "right": 1, "tuple": 0, "true": 1, "false": 0,
              "unit": 0}


def dump(x):
    return x._to_serial_root().model_dump(mode="json")


def nontrivial(v):
    from vf.gen.values import vdepth

    def has_coll(x):
        if isinstance(x, list):
            if x and x[0] in ("array", "list", "sarray") and len(x) > 2 and x[2]:
                return True
            return any(has_coll(y) for y in x)
        return False

    return vdepth(v) >= 2 or has_coll(v)


def feats(ctx, v):
    if isinstance(v, list) and v:
        if not isinstance(v[0], str):
            for y in v:
                feats(ctx, y)
            return
        if v[0] == "func":
            ctx.feat("feature:func-value")
        if v[0] in ("array", "list", "sarray"):
            ctx.feat("feature:array")
        if v[0] in EXPECT_TAG:
            ctx.feat("feature:sugar")
        for y in v:
            if isinstance(y, list):
                feats(ctx, y)


def check_value(ctx, case, stratum="value"):
    from hugr import ops, tys
    from hugr.build import Dfg
    from vf.gen.types import Builder, wire_ty
    from vf.gen.values import VBuilder, type_of
    from vf.oracles import wire

    td, vd = case
    tb = Builder()
    one_shot = len(json.dumps(vd)) % 2 == 1
    if one_shot:
        ctx.feat("feature:one-shot-iterables")
    V = VBuilder(tb, one_shot=one_shot).val(vd)
    vj = dump(V)
    exp_t = wire.canon(wire_ty(type_of(vd)))
    # (1) inhabits
    probs: list = []
    wire.inhabits(vj, probs)
    ctx.count("monitor:inhabits")
    for p in probs[:3]:
        ctx.disc(None, "does-not-inhabit", vd[0], "value inhabits its type", p, stratum=stratum, case=case)
    # (2) reported type
    ctx.count("monitor:reported-type")
    rep = wire.canon(dump(V.type_()))
    carried = wire.type_of_value(vj)
    if rep != exp_t:
        ctx.disc(None, "reported-type", vd[0], exp_t, rep, stratum=stratum, case=case)
    if carried != rep:
        ctx.disc(None, "reported-vs-serialized-type", vd[0], rep, carried, stratum=stratum, case=case)
    if wire.canon(wire_ty(td)) != exp_t:
        ctx.disc(None, "harness-generator-bug", "type_of(value) != target", wire_ty(td), exp_t,
                 stratum=stratum, case=case, prop="HARNESS")
    # (2b) the same value after it was written and read back (a constant of a loaded HUGR): it must still inhabit
    # the type it reports, which must still be the expected one
    import hugr._serialization.ops as sops

    ctx.count("monitor:decoded-value")
    Y = sops.Value.model_validate_json(json.dumps(vj)).deserialize()
    yj = dump(Y)
    probs2: list = []
    wire.inhabits(yj, probs2)
    for p in probs2[:3]:
        ctx.disc(None, "decoded-does-not-inhabit", vd[0], "decoded value inhabits its type", p, stratum=stratum,
                 case=case)
    if wire.canon(dump(Y.type_())) != exp_t:
        ctx.disc(None, "decoded-reported-type", vd[0], exp_t, wire.canon(dump(Y.type_())), stratum=stratum, case=case)
    # (3) helper tags
    if vd[0] in EXPECT_TAG or vd[0] in ("unitsum", "sum"):
        ctx.count("monitor:helper-tag")
        want = EXPECT_TAG[vd[0]] if vd[0] in EXPECT_TAG else vd[1]
        view = wire.as_sum(vj)
        if view is None or view[0] != want or getattr(V, "tag", want) != want:
            ctx.disc(None, "helper-tag", vd[0], want, [view and view[0], getattr(V, "tag", None)],
                     stratum=stratum, case=case)
    # (3b) collection constants embed every element, in order, as a complete value
    if vd[0] in ("array", "list", "sarray"):
        ctx.count("monitor:embedded-elements")
        pay = vj["value"]["v"]
        inner = pay.get("value") if vd[0] == "sarray" and isinstance(pay, dict) else pay
        got = inner.get("values") if isinstance(inner, dict) else None
        want = [dump(VBuilder(tb).val(e)) for e in vd[2]]
        if got != want:
            ctx.disc(None, "embedded-elements", vd[0], want, got, stratum=stratum, case=case)
        if isinstance(inner, dict) and wire.canon(inner.get("typ")) != wire.canon(wire_ty(vd[1])):
            ctx.disc(None, "embedded-element-type", vd[0], wire_ty(vd[1]), inner.get("typ"),
                     stratum=stratum, case=case)
        if vd[0] == "sarray" and pay.get("name") != vd[3]:
            ctx.disc(None, "static-array-name", vd[0], vd[3], pay.get("name"), stratum=stratum, case=case)
    # (4) Const / LoadConst
    ctx.count("monitor:const-load")
    c = ops.Const(V)
    from hugr import Node, OutPort

    kind = c.port_kind(OutPort(Node(0), 0))
    if not isinstance(kind, tys.ConstKind) or wire.canon(dump(kind.ty)) != exp_t:
        ctx.disc(None, "const-port-kind", "Const.out(0)", exp_t, repr(kind), stratum=stratum, case=case)
    d = Dfg()
    ld = d.load(V)
    h = d.hugr
    lop = h[ld].op
    if not isinstance(lop, ops.LoadConst):
        ctx.disc(None, "load-op", "load()", "LoadConst", repr(lop), stratum=stratum, case=case)
        return
    ik = h.port_kind(ld.inp(0))
    if not isinstance(ik, tys.ConstKind) or wire.canon(dump(ik.ty)) != exp_t:
        ctx.disc(None, "loadconst-in-kind", "LoadConst.inp(0)", exp_t, repr(ik), stratum=stratum, case=case)
    ot = h.port_type(ld.out(0))
    if ot is None or wire.canon(dump(ot)) != exp_t:
        ctx.disc(None, "loadconst-out-type", "LoadConst.out(0)", exp_t, repr(ot), stratum=stratum, case=case)
    srcs = list(h.linked_ports(ld.inp(0)))
    if len(srcs) != 1 or not isinstance(h[srcs[0].node].op, ops.Const) or srcs[0].offset != 0:
        ctx.disc(None, "load-not-linked-to-const", "LoadConst.inp(0)", "one link from Const.out(0)",
                 repr(srcs), stratum=stratum, case=case)
    else:
        ck = h.port_kind(srcs[0])
        if not isinstance(ck, tys.ConstKind) or wire.canon(dump(ck.ty)) != exp_t:
            ctx.disc(None, "const-port-kind", "Const node out(0)", exp_t, repr(ck), stratum=stratum, case=case)
        cj = h[srcs[0].node].op._to_serial(Node(0)).model_dump(mode="json")
        lj = lop._to_serial(Node(0)).model_dump(mode="json")
        if wire.canon(lj["datatype"]) != wire.type_of_value(cj["v"]):
            ctx.disc(None, "const-vs-load-wire-type", "datatype", wire.type_of_value(cj["v"]),
                     wire.canon(lj["datatype"]), stratum=stratum, case=case)


def check_const_replaced(ctx, case, stratum="const-replaced"):
    """One Const node whose value is exchanged after its type has been asked for (in place, or by a copy made with
    dataclasses.replace): what it offers on its static port, and what a LoadConstant built for it afterwards produces,
    is the type of the value it holds NOW -- nothing derived from the earlier value may be remembered."""
    import dataclasses

    from hugr import ops, tys
    from hugr.build import Dfg
    from vf.gen.types import Builder, wire_ty
    from vf.gen.values import VBuilder, type_of
    from vf.oracles import wire

    tb = Builder()
    V1, V2 = VBuilder(tb).val(case["v1"]), VBuilder(tb).val(case["v2"])
    t2 = wire.canon(wire_ty(type_of(case["v2"])))
    d = Dfg()
    n = d.add_const(V1)
    h = d.hugr
    # the first value's type is asked for in every way there is
    h.port_kind(n.out(0))
    d.load(n)
    h[n].op.port_kind(n.out(0))
    ctx.count("monitor:const-replaced")
    if case["how"] == "inplace":
        h[n].op.val = V2
    else:
        h[n].op = dataclasses.replace(h[n].op, val=V2)
    ck = h.port_kind(n.out(0))
    if not isinstance(ck, tys.ConstKind) or wire.canon(dump(ck.ty)) != t2:
        ctx.disc(None, "const-port-kind", ["Const node out(0) after its value was exchanged", case["how"]], t2,
                 repr(ck), stratum=stratum, case=case)
    ld = d.load(n)
    lop = h[ld].op
    ot = h.port_type(ld.out(0))
    if ot is None or wire.canon(dump(ot)) != t2:
        ctx.disc(None, "loadconst-out-type", ["LoadConst built after the exchange", case["how"]], t2, repr(ot),
                 stratum=stratum, case=case)
    lj = lop._to_serial(ld).model_dump(mode="json")
    cj = h[n].op._to_serial(n).model_dump(mode="json")
    if wire.canon(lj["datatype"]) != wire.type_of_value(cj["v"]):
        ctx.disc(None, "const-vs-load-wire-type", ["datatype after the exchange", case["how"]],
                 wire.type_of_value(cj["v"]), wire.canon(lj["datatype"]), stratum=stratum, case=case)
    return True


def check_int_edges(ctx):
    """integers at and just beyond the edges of every width: what is serialized inhabits int<w> -- or the value is
    refused; nothing in between"""
    from hugr.std.int import IntVal
    from vf.oracles import wire

    for w in range(7):
        n = 1 << w
        for v in (0, (1 << n) - 1, 1 << n, (1 << n) + 1, -(1 << (n - 1)), -(1 << (n - 1)) - 1, -1, 1 << 64, -(1 << 63) - 1):
            ctx.count("monitor:int-edge")
            case = {"int": [v, w]}
            try:
                vj = dump(IntVal(v, w))
            except Exception:  # noqa: BLE001
                ctx.count("observed:int-refused")
                continue
            probs: list = []
            wire.inhabits(vj, probs)
            if wire.type_of_value(vj) != wire.canon({"t": "Opaque", "extension": "arithmetic.int.types", "id": "int",
                                                      "args": [{"tya": "BoundedNat", "n": w}], "bound": "C"}):
                probs.append("reported type is not int<w>")
            for pr in probs[:1]:
                ctx.disc(None, "does-not-inhabit", ["IntVal", v, w], "an unsigned value of the width, or a refusal", pr,
                         stratum="int-edge", case=case)


def check_helper_independence(ctx):
    """what a helper hands out is the caller's to keep or change: a value obtained from a helper and then modified in
    place does not change what the helper builds next (right tag, right type)"""
    from hugr import tys, val

    def tag_of(v):
        return dump(v)["tag"]

    for mk, want in ((lambda: val.bool_value(True), 1), (lambda: val.bool_value(False), 0),
                     (lambda: val.Some(val.bool_value(True)), 1), (lambda: val.None_(tys.Bool), 0),
                     (lambda: val.Left([val.bool_value(False)], [tys.Bool]), 0),
                     (lambda: val.Right([tys.Bool], [val.bool_value(True)]), 1)):
        ctx.count("monitor:helper-independence")
        first = mk()
        keep = (first.tag, list(getattr(first, "vals", [])))
        try:
            first.tag = 1 - first.tag if want in (0, 1) else first.tag      # the caller edits ITS value
            second = mk()
            got = tag_of(second)
        finally:
            first.tag = keep[0]                                           # (restore, whatever object that was)
        if got != want:
            ctx.disc(None, "helper-tag", "helper called again after its earlier result was edited", want, got,
                     stratum="helper-independence", case={"helper": want})


def check_bool_spellings(ctx):
    """bool_value(b) for b that is true / false without being the singleton True / False (an int bit, an IntEnum member,
    an object with __index__ and __bool__ as array libraries have them)"""
    import enum

    from hugr import val

    class Bit:
        def __init__(self, b):
            self.b = b

        def __bool__(self):
            return bool(self.b)

        def __index__(self):
            return int(self.b)

        __int__ = __index__

    E = enum.IntEnum("E", {"zero": 0, "one": 1})
    for b, want in ((1, 1), (0, 0), (E.one, 1), (E.zero, 0), (Bit(1), 1), (Bit(0), 0), (5 & 1, 1), (4 & 1, 0)):
        ctx.count("monitor:bool-spellings")
        try:
            got = dump(val.bool_value(b))["tag"]
        except Exception as e:  # noqa: BLE001  (refusing something that is no bool is fine)
            ctx.count("observed:bool-spelling-refused")
            continue
        if got != want:
            ctx.disc(None, "helper-tag", f"bool_value({type(b).__name__} {int(b)})", want, got,
                     stratum="bool-spellings", case={"b": int(b)})


def check_func_root(ctx, case):
    """A function value whose body is rooted at a TailLoop (the dataflow parent whose outer signature differs from
    its body's): "a function-valued constant has the signature of its body"."""
    import hugr._serialization.ops as sops
    from hugr import Node, OutPort, ops, tys, val
    from hugr.build import Dfg
    from hugr.build.cond_loop import TailLoop
    from vf.gen.types import Builder, wire_ty
    from vf.oracles import wire

    tb = Builder()
    J, JO, R = ([tb.ty(t) for t in case[k]] for k in ("just", "jout", "rest"))
    tl = TailLoop(J, R)
    ins = tl.inputs()
    tag = tl.add_op(ops.Tag(case["tag"], tys.Sum([J, JO])), *(ins[:len(J)] if case["tag"] == 0 else []))
    if case["tag"] == 1 and JO:
        return False
    tl.set_loop_outputs(tag, *ins[len(J):])
    V = val.Function(tl.hugr)
    exp_t = wire.canon(wire_ty(["func", case["just"] + case["rest"],
                                [["sum", [case["just"], case["jout"]]], *case["rest"]], []]))
    ctx.count("monitor:func-root-signature")
    vj = dump(V)
    rows = wire.body_rows(vj["hugr"])
    if rows is None or [rows[0], rows[1]] != [exp_t["input"], exp_t["output"]]:
        ctx.disc(None, "harness-generator-bug", "loop body rows", [exp_t["input"], exp_t["output"]], rows,
                 stratum="func-root", case=case, prop="HARNESS")
        return False
    for what, got in (("reported-type", wire.canon(dump(V.type_()))),
                      ("reported-vs-serialized-type", wire.type_of_value(vj)),
                      ("decoded-reported-type",
                       wire.canon(dump(sops.Value.model_validate_json(json.dumps(vj)).deserialize().type_())))):
        if got != exp_t:
            ctx.disc(None, what, "func(loop root)", exp_t, got, stratum="func-root", case=case)
    kind = ops.Const(V).port_kind(OutPort(Node(0), 0))
    if not isinstance(kind, tys.ConstKind) or wire.canon(dump(kind.ty)) != exp_t:
        ctx.disc(None, "const-port-kind", "Const.out(0)", exp_t, repr(kind), stratum="func-root", case=case)
    d = Dfg()
    ld = d.load(V)
    ot = d.hugr.port_type(ld.out(0))
    lj = d.hugr[ld].op._to_serial(Node(0)).model_dump(mode="json")
    if ot is None or wire.canon(dump(ot)) != exp_t:
        ctx.disc(None, "loadconst-out-type", "LoadConst.out(0)", exp_t, repr(ot), stratum="func-root", case=case)
    if wire.canon(lj["datatype"]) != exp_t:
        ctx.disc(None, "const-vs-load-wire-type", "datatype", exp_t, wire.canon(lj["datatype"]), stratum="func-root",
                 case=case)
    return True


def check_program_loads(ctx, p):
    """cross-cutting: every `load` of a built program yields a LoadConst whose static port carries
    ConstKind(T) and whose output has type T, T being the type of the generator's value descriptor"""
    from hugr import ops, tys
    from vf.gen.types import wire_ty
    from vf.interp import Interp
    from vf.oracles import wire

    it = Interp()
    it.run(p)
    for ld, h, td in it.loads:
        ctx.count("monitor:program-load")
        exp_t = wire.canon(wire_ty(td))
        lop = h[ld].op
        if not isinstance(lop, ops.LoadConst):
            ctx.disc(None, "load-op", "load()", "LoadConst", repr(lop), stratum="program", case=p)
            continue
        ik = h.port_kind(ld.inp(0))
        ot = h.port_type(ld.out(0))
        if not isinstance(ik, tys.ConstKind) or wire.canon(dump(ik.ty)) != exp_t:
            ctx.disc(None, "loadconst-in-kind", "LoadConst.inp(0)", exp_t, repr(ik), stratum="program", case=p)
        if ot is None or wire.canon(dump(ot)) != exp_t:
            ctx.disc(None, "loadconst-out-type", "LoadConst.out(0)", exp_t, repr(ot), stratum="program", case=p)
        srcs = list(h.linked_ports(ld.inp(0)))
        if len(srcs) != 1 or not isinstance(h[srcs[0].node].op, ops.Const):
            ctx.disc(None, "load-not-linked-to-const", "LoadConst.inp(0)", "one link from a Const", repr(srcs),
                     stratum="program", case=p)
        else:
            ck = h.port_kind(srcs[0])
            if not isinstance(ck, tys.ConstKind) or wire.canon(dump(ck.ty)) != exp_t:
                ctx.disc(None, "const-port-kind", "Const node out(0)", exp_t, repr(ck), stratum="program", case=p)
    return len(it.loads)


def selftest(ctx):
    """The inhabits oracle must reject hand-made ill-typed documents (else inconclusive)."""
    from vf.oracles import wire

    B = {"t": "Sum", "s": "Unit", "size": 2}
    T = {"v": "Sum", "tag": 1, "typ": B, "vs": []}
    bad = [
        {"v": "Sum", "tag": 2, "typ": B, "vs": []},
        {"v": "Sum", "tag": 0, "typ": {"t": "Sum", "s": "General", "rows": [[B]]}, "vs": []},
        {"v": "Sum", "tag": 0, "typ": {"t": "Sum", "s": "General", "rows": [[{"t": "Q"}]]}, "vs": [T]},
        {"v": "Extension", "extensions": [], "typ": {"t": "Opaque", "extension": "arithmetic.int.types",
         "id": "int", "args": [{"tya": "BoundedNat", "n": 3}], "bound": "C"},
         "value": {"c": "ConstInt", "v": {"log_width": 3, "value": 256}}},
        {"v": "Extension", "extensions": ["collections.array"], "typ": {"t": "Opaque",
         "extension": "collections.array", "id": "array",
         "args": [{"tya": "BoundedNat", "n": 2}, {"tya": "Type", "ty": B}], "bound": "C"},
         "value": {"c": "ArrayValue", "v": {"values": [T], "typ": B}}},
    ]
    ok = True
    for b in bad:
        p: list = []
        wire.inhabits(b, p)
        ok = ok and bool(p)
    p = []
    wire.inhabits({"v": "Tuple", "vs": [T, T]}, p)
    ok = ok and not p
    if ok:
        ctx.count("monitor:selftest-negative")


def run(ctx):
    from vf.gen.values import VGen

    if ctx.shard == 0:
        selftest(ctx)
        ctx.guard("int-edge", None, check_int_edges, ctx)
        ctx.case("int-edge", "edges", True)
        ctx.guard("bool-spellings", None, check_bool_spellings, ctx)
        ctx.guard("helper-independence", None, check_helper_independence, ctx)
        ctx.case("helper-independence", "helpers", True)
    from vf.gen.prog import gen_program

    for i in ctx.mine(ctx.n(200, 20000)):
        r = ctx.rng("program", i)
        p = gen_program(r, budget=30)
        nl = ctx.guard("program", p, check_program_loads, ctx, p)
        ctx.case("program", p, bool(nl) and nl >= 2)
    for i in ctx.mine(ctx.n(300, 10000)):
        r = ctx.rng("func-root", i)
        g = VGen(r)
        row = lambda: [g.const_type(1, allow_func=False) for _ in range(r.randint(0, 2))]  # noqa: E731
        case = {"just": row(), "jout": row(), "rest": row(), "tag": 0}
        if not case["jout"] and r.random() < 0.5:
            case["tag"] = 1   # the loop ends at once (empty just_outputs)
        ok = ctx.guard("func-root", case, check_func_root, ctx, case)
        ctx.case("func-root", case, bool(ok) and bool(case["just"] or case["rest"]))
    from vf.gen.values import constable as _constable, type_of as _type_of

    for i in ctx.mine(ctx.n(600, 20000)):
        r = ctx.rng("const-replaced", i)
        g = VGen(r)
        vs = []
        for _ in range(40):
            td_ = g.const_type(r.randint(0, 2))
            if _constable(td_):
                vs.append(g.value(td_, 2))
            if len(vs) == 2 and _type_of(vs[0]) != _type_of(vs[1]):
                break
            vs = vs[:1] if len(vs) == 2 else vs
        if len(vs) != 2:
            continue
        case = {"v1": vs[0], "v2": vs[1], "how": ["inplace", "replace"][i % 2]}
        ok = ctx.guard("const-replaced", case, check_const_replaced, ctx, case)
        ctx.case("const-replaced", case, bool(ok))
    maxd = ctx.n(3, 5)
    for i in ctx.mine(ctx.n(12000, 400000)):
        r = ctx.rng("value", i)
        g = VGen(r)
        td = g.const_type(r.randint(0, maxd))
        from vf.gen.values import constable

        if not constable(td):
            ctx.count("generator:unconstable")
            continue
        vd = g.value(td, maxd)
        case = [td, vd]
        feats(ctx, vd)
        ctx.case("value", case, nontrivial(vd))
        ctx.guard("value", case, check_value, ctx, case)


def replay(ctx, rec):
    if rec.get("stratum") == "program":
        check_program_loads(ctx, rec["case"])
    elif rec.get("stratum") == "func-root":
        check_func_root(ctx, rec["case"])
    elif rec.get("stratum") == "int-edge":
        check_int_edges(ctx)
    elif rec.get("stratum") == "bool-spellings":
        check_bool_spellings(ctx)
    elif rec.get("stratum") == "helper-independence":
        check_helper_independence(ctx)
    elif rec.get("stratum") == "const-replaced":
        check_const_replaced(ctx, rec["case"])
    else:
        check_value(ctx, rec["case"])
