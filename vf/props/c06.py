"""C06 — operation signatures and port kinds follow the specification's typing rules.

Spec table evaluated on the generator's parameters (never on the op's own methods): for each
generated op instance the expected outer/inner rows, per-port kind/type, output count and the
nth_inputs / nth_outputs helpers are computed from the descriptors and compared (canonical
wire JSON, runtime_reqs stripped) with what the real op object reports."""

from __future__ import annotations

ID = "C06"
META = {
    "level": "exploration",
    "rule": ("case = {op kind, parameters (type descriptors)}; distinct by JSON; non-trivial when the op has "
             ">= 1 non-empty row (Call/LoadFunc: polymorphic signature)"),
    "required": ["monitor:outer", "monitor:inner", "monitor:port-kind", "monitor:num_out", "monitor:program-port", "monitor:retyped",
                 "monitor:graph-port-type", "monitor:order-port", "feature:arity-changing-instantiation",
                 "feature:empty-row", "feature:linear", "monitor:history-port-queries", "feature:history-index-reuse",
                 "monitor:graph-port-type-on-recycled-index"] + [f"cases:{k}" for k in (
                     "Input", "Output", "DFG", "CFG", "DataflowBlock", "ExitBlock", "Conditional", "Case",
                     "TailLoop", "Tag", "TagSugar", "MakeTuple", "UnpackTuple", "Noop", "CallIndirect",
                     "Call", "LoadFunc", "LoadConst", "Const", "FuncDefn", "FuncDecl", "Custom", "ExtOp")],
    "reach": ["hugr.ops:_sig_port_type", "hugr.ops:Conditional.nth_inputs",
              "hugr.ops:DataflowBlock.nth_outputs", "hugr.ops:TailLoop.inner_signature",
              "hugr.ops:Call.port_kind", "hugr.hugr.base:Hugr.port_type"],
    "assumptions": [
        "signatures compared on input/output rows (runtime_reqs not compared)",
        "ports queried: every value port in range, the static port, and the order port of dataflow ops",
        "type depth <= 2 (quick) / 3 (thorough)",
    ],
}

KINDS = ["Input", "Output", "DFG", "CFG", "DataflowBlock", "ExitBlock", "Conditional", "Case",
         "TailLoop", "Tag", "TagSugar", "MakeTuple", "UnpackTuple", "Noop", "CallIndirect", "Call",
         "LoadFunc", "LoadConst", "Const", "FuncDefn", "FuncDecl", "Custom", "ExtOp"]

# ops that have a state-order port on the given side(s)
ORDER_IN = {"Output", "DFG", "CFG", "Conditional", "TailLoop", "Tag", "TagSugar", "MakeTuple",
            "UnpackTuple", "Noop", "CallIndirect", "Call", "LoadFunc", "LoadConst", "Custom", "ExtOp"}
ORDER_OUT = (ORDER_IN - {"Output"}) | {"Input"}


def gen_case(r, depth, kind=None):
    from vf.gen.types import Gen, gen_poly
    from vf.gen.values import VGen, constable

    g = Gen(r, allow_vars=False)
    k = kind or r.choice(KINDS)
    row = lambda n=3: g.row(depth, n)  # noqa: E731
    c = {"k": k}
    if k in ("Input", "Output", "ExitBlock"):
        c["types"] = row()
    elif k in ("DFG", "CFG", "Case"):
        c["ins"], c["outs"] = row(), row()
        if k == "DFG":
            # the requirements a DFG declares are part of its one signature (outer == inner)
            c["delta"] = r.sample(["prelude", "arithmetic.int", "verif.test", "x"], r.choice([0, 0, 1, 2]))
    elif k == "DataflowBlock":
        c["ins"], c["rows"], c["other"] = row(), [row(2) for _ in range(r.randint(0, 3))], row(2)
    elif k == "Conditional":
        c["rows"], c["other"], c["outs"] = [row(2) for _ in range(r.randint(0, 3))], row(2), row()
    elif k == "TailLoop":
        c["just_in"], c["rest"], c["just_out"] = row(2), row(2), row(2)
    elif k == "Tag":
        c["rows"] = [row(2) for _ in range(r.randint(1, 4))]
        c["tag"] = r.randrange(len(c["rows"]))
    elif k == "TagSugar":
        c["sugar"] = r.choice(["Some", "Left", "Right", "Continue", "Break"])
        c["a"], c["b"] = row(2), row(2)
    elif k in ("MakeTuple", "UnpackTuple"):
        c["types"] = row(4)
    elif k == "Noop":
        c["ty"] = g.ty(depth)
    elif k == "CallIndirect":
        c["ins"], c["outs"] = row(), row()
        c["reqs"] = r.choice([[], [], ["tket2.quantum"], ["z.ext", "a.ext"]])
    elif k in ("Call", "LoadFunc", "FuncDecl"):
        c["params"], c["body"], c["targs"], c["inst"] = gen_poly(r, g, depth)
    elif k == "FuncDefn":
        c["params"], c["body"], _, _ = gen_poly(r, g, depth)
        c["name"] = r.choice(["f", "main", "ünï", "", " f\n"])
    elif k == "LoadConst":
        c["ty"] = g.ty(depth)
    elif k == "Const":
        vg = VGen(r)
        t = vg.const_type(depth)
        while not constable(t):
            t = vg.const_type(depth)
        c["ty"], c["val"] = t, vg.value(t, depth + 1)
    elif k in ("Custom", "ExtOp"):
        c["ins"], c["outs"] = row(), row()
        c["args"] = [g.any_arg(1) for _ in range(r.randint(0, 2))]
    return c


def dump_t(t):
    from vf.oracles import wire

    return wire.strip_reqs(wire.canon(t._to_serial_root().model_dump(mode="json")))


def exp_t(d):
    from vf.gen.types import wire_ty
    from vf.oracles import wire

    return wire.strip_reqs(wire.canon(wire_ty(d)))


def exp_row(row):
    return [exp_t(t) for t in row]


def S(rows):
    return ["sum", rows]


def kind_repr(k):
    """Comparable view of a hugr Kind object."""
    from hugr import tys
    from vf.oracles import wire

    if isinstance(k, tys.ValueKind):
        return ["value", dump_t(k.ty)]
    if isinstance(k, tys.ConstKind):
        return ["const", dump_t(k.ty)]
    if isinstance(k, tys.FunctionKind):
        return ["func", wire.strip_reqs(wire.canon_poly(k.ty._to_serial().model_dump(mode="json")))]
    if isinstance(k, tys.OrderKind):
        return ["order"]
    if isinstance(k, tys.CFKind):
        return ["cf"]
    return ["?", repr(k)]


def build(c):
    """(op object, spec) where spec holds the expectations derived from the parameters only."""
    from hugr import ext, ops, tys
    from vf.gen.types import Builder, wire_poly
    from vf.gen.values import VBuilder, type_of
    from vf.oracles import wire

    B = Builder()
    k = c["k"]
    sp = {"outer": None, "inner": None, "num_out": None, "in": {}, "out": {}, "extra": [], "feats": []}
    ctx_feat = sp["feats"]
    V = lambda t: ["value", exp_t(t)]  # noqa: E731

    def dataflow(ins, outs):
        sp["outer"] = (exp_row(ins), exp_row(outs))
        sp["num_out"] = len(outs)
        sp["in"].update({i: V(t) for i, t in enumerate(ins)})
        sp["out"].update({i: V(t) for i, t in enumerate(outs)})

    def poly(params, body):
        return ["func", wire.strip_reqs(wire.canon_poly(wire_poly(params, body)))]

    def sum_obj(rows):
        """the sum type object over these rows: the general Sum, or -- when the rows have the shape -- the sugar class
        that denotes the same sum (every other time, decided by the descriptor so that a replay takes the same one)"""
        if len(repr(rows)) % 2:
            return tys.Sum([B.row(r) for r in rows])
        if rows and all(not r for r in rows):
            ctx_feat.append("feature:sugar-sum-type-object")
            return tys.Bool if len(rows) == 2 and len(repr(c)) % 3 else tys.UnitSum(len(rows))
        if len(rows) == 1:
            ctx_feat.append("feature:sugar-sum-type-object")
            return tys.Tuple(*B.row(rows[0]))
        if len(rows) == 2 and not rows[0]:
            ctx_feat.append("feature:sugar-sum-type-object")
            return tys.Option(*B.row(rows[1]))
        if len(rows) == 2:
            ctx_feat.append("feature:sugar-sum-type-object")
            return tys.Either(B.row(rows[0]), B.row(rows[1]))
        return tys.Sum([B.row(r) for r in rows])

    if k == "Input":
        op = ops.Input(B.row(c["types"]))
        dataflow([], c["types"])
    elif k == "Output":
        op = ops.Output(B.row(c["types"]))
        dataflow(c["types"], [])
    elif k == "DFG":
        op = ops.DFG(B.row(c["ins"]), B.row(c["outs"]), list(c.get("delta", [])))
        dataflow(c["ins"], c["outs"])
        sp["inner"] = sp["outer"]
    elif k == "CFG":
        op = ops.CFG(B.row(c["ins"]), B.row(c["outs"]))
        dataflow(c["ins"], c["outs"])
    elif k == "DataflowBlock":
        op = ops.DataflowBlock(B.row(c["ins"]), sum_obj(c["rows"]), B.row(c["other"]))
        sp["inner"] = (exp_row(c["ins"]), exp_row([S(c["rows"]), *c["other"]]))
        sp["num_out"] = len(c["rows"])
        sp["in"][0] = ["cf"]
        sp["out"].update({i: ["cf"] for i in range(len(c["rows"]))})
        for i, r_ in enumerate(c["rows"]):
            sp["extra"].append(("nth_outputs", i, exp_row([*r_, *c["other"]])))
    elif k == "ExitBlock":
        op = ops.ExitBlock(B.row(c["types"]))
        sp["num_out"] = 0
        sp["in"][0] = ["cf"]
    elif k == "Conditional":
        op = ops.Conditional(sum_obj(c["rows"]), B.row(c["other"]), B.row(c["outs"]))
        dataflow([S(c["rows"]), *c["other"]], c["outs"])
        for i, r_ in enumerate(c["rows"]):
            sp["extra"].append(("nth_inputs", i, exp_row([*r_, *c["other"]])))
    elif k == "Case":
        op = ops.Case(B.row(c["ins"]), B.row(c["outs"]))
        sp["inner"] = (exp_row(c["ins"]), exp_row(c["outs"]))
        sp["num_out"] = 0
    elif k == "TailLoop":
        op = ops.TailLoop(B.row(c["just_in"]), B.row(c["rest"]), B.row(c["just_out"]))
        dataflow([*c["just_in"], *c["rest"]], [*c["just_out"], *c["rest"]])
        sp["inner"] = (exp_row([*c["just_in"], *c["rest"]]),
                       exp_row([S([c["just_in"], c["just_out"]]), *c["rest"]]))
    elif k == "Tag":
        op = ops.Tag(c["tag"], sum_obj(c["rows"]))
        dataflow(c["rows"][c["tag"]], [S(c["rows"])])
    elif k == "TagSugar":
        s, a, b = c["sugar"], c["a"], c["b"]
        if s == "Some":
            op = ops.Some(*B.row(a))
            rows, tag = [[], a], 1
        else:
            et = tys.Either(B.row(a), B.row(b))
            rows = [a, b]
            tag = 0 if s in ("Left", "Continue") else 1
            op = getattr(ops, s)(et)
        dataflow(rows[tag], [S(rows)])
        sp["extra"].append(("same-as-tag", tag, rows))
    elif k == "MakeTuple":
        op = ops.MakeTuple(B.row(c["types"]))
        dataflow(c["types"], [["tuple", c["types"]]])
    elif k == "UnpackTuple":
        op = ops.UnpackTuple(B.row(c["types"]))
        dataflow([["tuple", c["types"]]], c["types"])
    elif k == "Noop":
        op = ops.Noop(B.ty(c["ty"]))
        dataflow([c["ty"]], [c["ty"]])
    elif k == "CallIndirect":
        f = ["func", c["ins"], c["outs"], list(c.get("reqs", []))]
        op = ops.CallIndirect(B.func(f))
        dataflow([f, *c["ins"]], c["outs"])
    elif k in ("Call", "LoadFunc"):
        sig = tys.PolyFuncType([B.param(p) for p in c["params"]], B.func(c["body"]))
        inst = B.func(c["inst"]) if c["params"] else None
        targs = [B.arg(a) for a in c["targs"]] if c["params"] else None
        if not c["params"]:
            # a function WITHOUT type parameters: its instantiated signature is its body, whatever else is handed over
            # as `instantiation` (nothing, the body spelled again, or a function type that is not the body -- refusing
            # the last is fine, believing it is not)
            how_ = len(repr(c)) % 3
            if how_ == 1:
                inst = tys.FunctionType(B.row(c["body"][1]), B.row(c["body"][2]), list(c["body"][3]))
                sp["feats"].append("feature:mono-callee-explicit-instantiation")
            elif how_ == 2:
                inst = tys.FunctionType([*B.row(c["body"][1]), tys.Bool, tys.Qubit], [tys.Unit])
                sp["feats"].append("feature:mono-callee-foreign-instantiation")
                try:
                    (ops.Call if k == "Call" else ops.LoadFunc)(sig, inst, targs)
                except Exception:  # noqa: BLE001
                    sp["feats"].append("observed:foreign-instantiation-refused")
                    inst = None
        if k == "Call":
            op = ops.Call(sig, inst, targs)
            ins, outs = c["inst"][1], c["inst"][2]
            sp["outer"] = None  # Call has no outer_signature method; ports are checked
            sp["num_out"] = len(outs)
            sp["in"].update({i: V(t) for i, t in enumerate(ins)})
            sp["in"][len(ins)] = poly(c["params"], c["body"])
            sp["out"].update({i: V(t) for i, t in enumerate(outs)})
            sp["extra"].append(("function-port-offset", len(ins), None))
        else:
            op = ops.LoadFunc(sig, inst, targs)
            dataflow([], [c["inst"]])
            sp["in"][0] = poly(c["params"], c["body"])
    elif k == "LoadConst":
        op = ops.LoadConst(B.ty(c["ty"]))
        dataflow([], [c["ty"]])
        sp["in"][0] = ["const", exp_t(c["ty"])]
    elif k == "Const":
        op = ops.Const(VBuilder(B).val(c["val"]))
        sp["num_out"] = 1
        sp["out"][0] = ["const", exp_t(type_of(c["val"]))]
    elif k == "FuncDefn":
        op = ops.FuncDefn(c["name"], B.row(c["body"][1]), [B.param(p) for p in c["params"]],
                          B.row(c["body"][2]))
        sp["inner"] = (exp_row(c["body"][1]), exp_row(c["body"][2]))
        sp["num_out"] = 1
        sp["out"][0] = poly(c["params"], c["body"])
    elif k == "FuncDecl":
        op = ops.FuncDecl("decl", tys.PolyFuncType([B.param(p) for p in c["params"]], B.func(c["body"])))
        sp["num_out"] = 1
        sp["out"][0] = poly(c["params"], c["body"])
    elif k == "Custom":
        op = ops.Custom("op", tys.FunctionType(B.row(c["ins"]), B.row(c["outs"])), "d", "some.ext",
                        [B.arg(a) for a in c["args"]])
        dataflow(c["ins"], c["outs"])
    elif k == "ExtOp":
        e = ext.Extension("gen.ext", ext.Version(1, 0, 0))
        od = e.add_op_def(ext.OpDef("gop", ext.OpDefSig(None, binary=True)))
        op = od.instantiate([B.arg(a) for a in c["args"]],
                            tys.FunctionType(B.row(c["ins"]), B.row(c["outs"])))
        dataflow(c["ins"], c["outs"])
    else:
        raise AssertionError(k)
    return op, sp


def sig_rows(sig):
    return ([dump_t(t) for t in sig.input], [dump_t(t) for t in sig.output])


def check_case(ctx, c, stratum="op"):
    from hugr import Hugr, InPort, Node, OutPort, ops

    op, sp = build(c)
    for f_ in sp.get("feats", []):
        ctx.feat(f_)
    k = c["k"]
    n0 = Node(0)

    def bad(kind, locus, exp, obs):
        ctx.disc(None, kind, [k, locus], exp, obs, stratum=stratum, case=c)

    if sp["outer"] is not None:
        ctx.count("monitor:outer")
        got = sig_rows(op.outer_signature())
        if got != sp["outer"]:
            bad("outer-signature", "outer", sp["outer"], got)
    if sp["inner"] is not None:
        ctx.count("monitor:inner")
        got = sig_rows(op.inner_signature())
        if got != sp["inner"]:
            bad("inner-signature", "inner", sp["inner"], got)
    if k == "DFG":
        # "a DFG's outer signature equals its body's": as whole function types, requirements included
        ctx.count("monitor:dfg-outer-is-inner")
        wo, wi = (x._to_serial_root().model_dump(mode="json") for x in (op.outer_signature(), op.inner_signature()))
        want = sorted(c.get("delta", []))
        for nm, w in (("outer", wo), ("inner", wi)):
            if sorted(w.get("runtime_reqs", [])) != want:
                bad("dfg-signature-requirements", nm, want, sorted(w.get("runtime_reqs", [])))
    ctx.count("monitor:num_out")
    if op.num_out != sp["num_out"]:
        bad("num_out", "num_out", sp["num_out"], op.num_out)
    for side, mk, table in (("in", InPort, sp["in"]), ("out", OutPort, sp["out"])):
        for off, want in table.items():
            ctx.count("monitor:port-kind")
            try:
                got = kind_repr(op.port_kind(mk(n0, off)))
            except Exception as e:  # noqa: BLE001
                got = ["raised", type(e).__name__]
            if got != want:
                bad("port-kind", [side, off], want, got)
            if want[0] == "value" and isinstance(op, ops.DataflowOp):
                try:
                    gt = dump_t(op.port_type(mk(n0, off)))
                except Exception as e:  # noqa: BLE001
                    gt = ["raised", type(e).__name__]
                if gt != want[1]:
                    bad("port-type", [side, off], want[1], gt)
    if k == "CallIndirect":
        # "prepends the function type": the WHOLE type of the function value, the requirements that are part of a
        # function type included (the row comparison above leaves requirements out)
        ctx.count("monitor:call-indirect-function-type-requirements")
        want_r = sorted(c.get("reqs", []))
        for nm, get in (("outer_signature().input[0]", lambda: op.outer_signature().input[0]),
                        ("port_type(in 0)", lambda: op.port_type(InPort(n0, 0))),
                        ("port_kind(in 0)", lambda: op.port_kind(InPort(n0, 0)).ty)):
            try:
                got_r = sorted(get()._to_serial_root().model_dump(mode="json").get("runtime_reqs", []))
            except Exception as e:  # noqa: BLE001
                got_r = ["raised", type(e).__name__]
            if got_r != want_r:
                bad("call-indirect-function-type-requirements", nm, want_r, got_r)
        if want_r:
            ctx.feat("feature:call-indirect-callee-with-requirements")
    for side, mk, has in (("in", InPort, k in ORDER_IN), ("out", OutPort, k in ORDER_OUT)):
        if has:
            ctx.count("monitor:order-port")
            try:
                got = kind_repr(op.port_kind(mk(n0, -1)))
            except Exception as e:  # noqa: BLE001
                got = ["raised", type(e).__name__]
            if got != ["order"]:
                bad("order-port-kind", [side, -1], ["order"], got)
    for name, i, want in sp["extra"]:
        if name in ("nth_inputs", "nth_outputs"):
            got = [dump_t(t) for t in getattr(op, name)(i)]
            if got != want:
                bad(name, i, want, got)
        elif name == "function-port-offset":
            pass  # observed through port_kind above
        elif name == "same-as-tag":
            from hugr import tys
            from vf.gen.types import Builder

            B = Builder()
            gen = ops.Tag(i, tys.Sum([B.row(r) for r in want]))
            if sig_rows(gen.outer_signature()) != sig_rows(op.outer_signature()):
                bad("sugar-vs-tag-signature", c["sugar"], sig_rows(gen.outer_signature()),
                    sig_rows(op.outer_signature()))
            a = gen._to_serial(n0).model_dump(mode="json")
            b = op._to_serial(n0).model_dump(mode="json")
            if a != b:
                bad("sugar-vs-tag-encoding", c["sugar"], a, b)
    # graph level: Hugr.port_type == payload of Hugr.port_kind on value output ports -- also where the node sits on an
    # index that another node (with other ports, asked about before it was deleted) held earlier
    h = Hugr()
    from hugr import tys as _tys

    ctx.count("monitor:graph-port-type-on-recycled-index")
    stale = h.add_node(ops.Custom("earlier", _tys.FunctionType([_tys.Qubit, _tys.Bool], [_tys.Qubit, _tys.Unit, _tys.Bool] * 3),
                                  extension="verif.earlier"))
    for off in range(9):
        h.port_type(stale.out(off))
        h.port_kind(stale.out(off))
    for off in range(2):
        h.port_type(stale.inp(off))
        h.port_kind(stale.inp(off))
    h.delete_node(stale)
    n = h.add_node(op)
    if n.idx != stale.idx:
        ctx.count("observed:freed-index-not-reused")
    for off, want in sp["out"].items():
        ctx.count("monitor:graph-port-type")
        p = n.out(off)
        try:
            kd = h.port_kind(p)
            pt = h.port_type(p)
        except Exception as e:  # noqa: BLE001
            bad("graph-port-type", off, want, ["raised", type(e).__name__, str(e)[:100]])
            continue
        if kind_repr(kd) != want:
            bad("graph-port-kind", off, want, kind_repr(kd))
        if want[0] == "value":
            if pt is None or dump_t(pt) != want[1]:
                bad("graph-port-type", off, want[1], None if pt is None else dump_t(pt))


def check_declared_poly(ctx, case, stratum="declared-poly"):
    """a polymorphic function whose outputs are DECLARED up front (define_function(..., output_types, type_params) or
    declare_outputs): its function port keeps the type parameters, and calls / loads of it expose the instantiated
    signature with the function port right after the value inputs"""
    from hugr import tys
    from hugr.build import Module

    k, m, via = case["k"], case["m"], case["via"]
    C = tys.TypeBound.Copyable
    T = tys.Variable(0, C)
    ins, outs = [T] * k + [tys.Bool], [T] * m
    mod = Module()
    if via == "define_function":
        f = mod.define_function("p", ins, outs, [tys.TypeTypeParam(C)])
    else:
        f = mod.define_function("p", ins, None, [tys.TypeTypeParam(C)])
        f.declare_outputs(outs)
    h = mod.hugr
    ctx.count("monitor:declared-poly")
    kd = h.port_kind(f.parent_node.out(0))
    sig = getattr(kd, "ty", None)
    if not isinstance(kd, tys.FunctionKind) or len(sig.params) != 1 or len(sig.body.input) != k + 1 \
            or len(sig.body.output) != m:
        ctx.disc(None, "declared-poly-function-port", via, f"forall [Type]. {k + 1} inputs -> {m} outputs", repr(kd),
                 stratum=stratum, case=case)
        return
    caller = mod.define_function("main", [tys.Qubit] * 0 + [tys.Unit] * k + [tys.Bool])
    inst = tys.FunctionType([tys.Unit] * k + [tys.Bool], [tys.Unit] * m)
    c = caller.call(f, *caller.inputs(), instantiation=inst, type_args=[tys.TypeTypeArg(tys.Unit)])
    cop = h[c].op
    for off in range(k + 1):
        want = tys.Unit if off < k else tys.Bool
        kin = h.port_kind(c.inp(off))
        if not isinstance(kin, tys.ValueKind) or kin.ty != want:
            ctx.disc(None, "declared-poly-call-port", [via, "in", off], repr(want), repr(kin), stratum=stratum, case=case)
    if not isinstance(h.port_kind(c.inp(k + 1)), tys.FunctionKind) or cop.num_out != m:
        ctx.disc(None, "declared-poly-call-port", [via, "function port / num_out"], [k + 1, m],
                 [repr(h.port_kind(c.inp(k + 1))), cop.num_out], stratum=stratum, case=case)
    for off in range(m):
        if h.port_type(c.out(off)) != tys.Unit:
            ctx.disc(None, "declared-poly-call-port", [via, "out", off], "Unit", repr(h.port_type(c.out(off))),
                     stratum=stratum, case=case)
    lf = caller.load_function(f, instantiation=inst, type_args=[tys.TypeTypeArg(tys.Unit)])
    lt = h.port_type(lf.out(0))
    if lt != inst:
        ctx.disc(None, "declared-poly-load-type", via, repr(inst), repr(lt), stratum=stratum, case=case)


def check_history(ctx, hist, stratum="history"):
    """The graph-level port queries under a mutation history with deletions and index re-use: after every step, for
    every live node, Hugr.port_kind / port_type of each of its ports is what the operation it holds NOW says (every
    operation a history creates has its own four input and four output types)."""
    from hugr import tys
    from vf.gen.histories import Exec, hist_sig

    seen = {"reuse": False, "idx": set()}

    def on_step(ex, i, st):
        h = ex.h
        for n in h:
            op = h[n].op
            name = getattr(op, "op_name", "")
            if not name.startswith("op") or "_" not in name:
                continue
            if st[0] == "add_node" and n.idx in seen["idx"] and n.idx == ex.handles[-1].idx:
                seen["reuse"] = True
            k = int(name.split("_")[1])
            ins, outs = hist_sig(k)
            ctx.count("monitor:history-port-queries")
            for d, row, mk in (("out", outs, n.out), ("in", ins, n.inp)):
                for off, want in enumerate(row):
                    p = mk(off)
                    try:
                        kd, pt = h.port_kind(p), h.port_type(p)
                    except Exception as e:  # noqa: BLE001
                        ctx.disc(None, "history-port-query-raises", [d, off], repr(want), f"{type(e).__name__}: {e}"[:150],
                                 stratum=stratum, case=hist)
                        continue
                    if not isinstance(kd, tys.ValueKind) or kd.ty != want or pt != want:
                        ctx.disc(None, "history-port-type", [i, st[0], n.idx, d, off], repr(want),
                                 [repr(kd), repr(pt)], stratum=stratum, case=hist)
        seen["idx"] |= {n.idx for n in h}

    Exec(on_step).run(hist)
    if seen["reuse"]:
        ctx.feat("feature:history-index-reuse")
    return seen["reuse"]


def features(ctx, c):
    def rows(x):
        if isinstance(x, dict):
            for v in x.values():
                yield from rows(v)
        elif isinstance(x, list):
            yield x
            for v in x:
                yield from rows(v)

    txt = repr(c)
    if "'qubit'" in txt or "'A'" in txt:
        ctx.feat("feature:linear")
    if any(v == [] for key, v in c.items() if key in ("types", "ins", "outs", "other", "rest", "just_in",
                                                       "just_out", "a", "b")):
        ctx.feat("feature:empty-row")
    if c["k"] in ("Call", "LoadFunc") and c["params"]:
        if len(c["inst"][1]) != len(c["body"][1]) or len(c["inst"][2]) != len(c["body"][2]):
            ctx.feat("feature:arity-changing-instantiation")


def nontrivial(c):
    if c["k"] in ("Call", "LoadFunc", "FuncDecl", "FuncDefn"):
        return bool(c["params"])
    return any(bool(v) for key, v in c.items()
               if key in ("types", "ins", "outs", "rows", "other", "rest", "just_in", "just_out", "a", "b"))\
        or c["k"] in ("Noop", "LoadConst", "Const")


def check_retyped(ctx, c):
    """one partial-op instance (MakeTuple / UnpackTuple / Noop / CallIndirect) used for several nodes through
    the public builder route: after each use every reported fact and the serialized form must be those of
    the *current* typing"""
    from hugr import InPort, Node, OutPort, ops
    from hugr.build import Dfg
    from vf.gen.types import Builder, wire_ty
    from vf.oracles import wire

    name = c["op"]
    op = getattr(ops, name)()
    earlier = []
    for use, row in enumerate(c["rows"]):
        ctx.count("monitor:retyped")
        B = Builder()
        if name == "MakeTuple":
            ins, outs = row, [["tuple", row]]
        elif name == "UnpackTuple":
            ins, outs = [["tuple", row]], row
        elif name == "Noop":
            row = row[:1] or [["bool"]]
            ins, outs = row, row
        else:  # CallIndirect over a function of this row
            f = ["func", row, list(reversed(row)), []]
            ins, outs = [f, *row], list(reversed(row))
        d = Dfg(*B.row(ins))
        given = len(ins)
        if name == "CallIndirect" and row:
            # the call is added with the function wire and only some of the arguments; the others are linked
            # afterwards: the signature is that of the function value, not of what happens to be connected
            given = 1 + (use + len(c["rows"])) % (len(row) + 1)
        n = d.add_op(op, *d.inputs()[:given])
        if given < len(ins):
            ctx.count("monitor:retyped-partially-wired-call")
            for i in range(given, len(ins)):
                d.hugr.add_link(d.inputs()[i], n.inp(i))
        want = (exp_row(ins), exp_row(outs))

        def bad(kind, exp, obs):
            ctx.disc(None, f"retyped-{kind}", [name, use], exp, obs, stratum="retyped", case=c)

        nop = d.hugr[n].op   # the operation the HUGR holds for this node (the caller's object may be a template)
        got = sig_rows(nop.outer_signature())
        if got != want:
            bad("outer-signature", want, got)
        if nop.num_out != len(outs):
            bad("num_out", len(outs), nop.num_out)
        if d.hugr.num_in_ports(n) < len(ins) or d.hugr.num_out_ports(n) != len(outs):
            bad("port-counts", [len(ins), len(outs)], [d.hugr.num_in_ports(n), d.hugr.num_out_ports(n)])
        if len(list(n)) != len(outs):
            bad("handle-outputs", len(outs), len(list(n)))
        for i, t in enumerate(outs):
            try:
                k = kind_repr(nop.port_kind(OutPort(Node(0), i)))
            except Exception as e:  # noqa: BLE001
                k = ["raised", type(e).__name__]
            if k != ["value", exp_t(t)]:
                bad("port-kind", ["value", exp_t(t)], k)
        j = nop._to_serial(Node(0)).model_dump(mode="json")
        sg = j["signature"]
        got_w = ([wire.strip_reqs(wire.canon(t)) for t in sg["input"]],
                 [wire.strip_reqs(wire.canon(t)) for t in sg["output"]])
        # CallIndirect serializes the signature of the function it calls, the others their own
        want_w = (exp_row(row), exp_row(list(reversed(row)))) if name == "CallIndirect" else want
        if got_w != want_w:
            bad("serialized-signature", want_w, got_w)
        earlier.append((use, d, n, want, len(outs)))
    # the nodes built by the earlier uses still carry the operation of THEIR use
    for use, d, n, want, nout in earlier[:-1]:
        ctx.count("monitor:retyped-earlier-node")
        nop = d.hugr[n].op
        got = sig_rows(nop.outer_signature())
        if got != want or nop.num_out != nout or d.hugr.num_out_ports(n) != nout:
            ctx.disc(None, "retyped-earlier-node-changed", [name, use], [want, nout],
                     [got, nop.num_out, d.hugr.num_out_ports(n)], stratum="retyped", case=c)


def check_program_ports(ctx, p):
    """every port of every node of a built program: Hugr.port_kind must be the kind the op's *serialized*
    signature gives that port (wire table), and Hugr.port_type the payload of a value kind"""
    from hugr import Node, tys
    from vf.interp import Interp
    from vf.oracles import wire
    from vf.oracles.observe import enc_op

    h = Interp().run(p)
    for n in h:
        op = h[n].op
        pt = wire.op_ports({"parent": 0, **enc_op(op)})
        for side, mk, lst, other in (("in", n.inp, pt["in"], pt["other_in"]), ("out", n.out, pt["out"], pt["other_out"])):
            offs = list(range(len(lst))) + ([-1] if other == "order" else [])
            for off in offs:
                ctx.count("monitor:program-port")
                want = lst[off] if off >= 0 else "order"
                if isinstance(want, tuple):
                    want = [want[0], wire.strip_reqs(want[1])]
                else:
                    want = [want]
                try:
                    got = kind_repr(h.port_kind(mk(off)))
                except Exception as e:  # noqa: BLE001
                    got = ["raised", type(e).__name__]
                if got != want:
                    ctx.disc(None, "program-port-kind", [type(op).__name__, side, off], want, got,
                             stratum="program", case=p)
                elif side == "out":
                    # "the type reported for a value output port equals the payload of that port's kind" (and, as
                    # Hugr.port_type documents, there is no type where the kind is not a value kind): every OUT
                    # port, the order and static ones included; the statement does not speak about input ports
                    ctx.count("monitor:program-port-type")
                    try:
                        ptype = h.port_type(mk(off))
                        gt = None if ptype is None else dump_t(ptype)
                    except Exception as e:  # noqa: BLE001
                        gt = ["raised", type(e).__name__]
                    wt = want[1] if want[0] == "value" else None
                    # a port whose kind carries no type must not be given one: None or a refusal are both fine
                    if gt != wt and not (wt is None and isinstance(gt, list) and gt[:1] == ["raised"]):
                        ctx.disc(None, "program-port-type", [type(op).__name__, side, off, want[0]], wt, gt,
                                 stratum="program", case=p)
    return len(h)


def check_loop_outputs_again(ctx, c):
    """the body of a tail loop finished a second time with another Break row (the user changed their mind): what the
    TailLoop operation reports follows the body as it is now -- its Output node is the ground truth"""
    from hugr import ops, tys
    from hugr.build.cond_loop import TailLoop

    ctx.count("monitor:loop-outputs-set-again")
    rest_n = c["rest"]
    tl = TailLoop([tys.Bool], [tys.Bool] * rest_n)
    b, *rest = tl.inputs()
    for step, k in enumerate(c["breaks"]):
        e = tys.Either([tys.Bool], [tys.Bool] * k)
        brk = tl.add_op(ops.Break(e), *([b] * k))
        tl.set_loop_outputs(brk, *rest)
        op = tl.hugr[tl.parent_node].op
        want_out = ["Bool"] * (k + rest_n)
        obs = {"outer.output": [repr(t) for t in op.outer_signature().output], "num_out": op.num_out,
               "inner.output[0].rows": [len(r_) for r_ in op.inner_signature().output[0].variant_rows],
               "inner.output.len": len(op.inner_signature().output)}
        want = {"outer.output": want_out, "num_out": k + rest_n, "inner.output[0].rows": [1, k],
                "inner.output.len": 1 + rest_n}
        for key_ in want:
            if obs[key_] != want[key_]:
                ctx.disc(None, "loop-signature-after-outputs-set-again", [step, key_], want[key_], obs[key_],
                         stratum="loop-again", case=c)
        for i_ in range(k + rest_n):
            try:
                got = repr(tl.hugr.port_type(tl.parent_node.out(i_)))
            except Exception as ex:  # noqa: BLE001
                got = ["raised", type(ex).__name__]
            if got != "Bool":
                ctx.disc(None, "loop-port-type-after-outputs-set-again", [step, i_], "Bool", got,
                         stratum="loop-again", case=c)


def run(ctx):
    from vf.gen.prog import gen_program

    for i in ctx.mine(36):
        case = {"rest": i % 3, "breaks": [[1, 2], [2, 0], [0, 3], [1, 1, 2], [3, 1], [2, 2, 0]][(i // 3) % 6]}
        ctx.guard("loop-again", case, check_loop_outputs_again, ctx, case)
        ctx.case("loop-again", case, True)

    for i in ctx.mine(ctx.n(300, 30000)):
        r = ctx.rng("program", i)
        p = gen_program(r, budget=30, kind="module" if i % 4 == 0 else None,
                        force=("rowpoly-call",) if i % 4 == 0 else ())
        nn = ctx.guard("program", p, check_program_ports, ctx, p)
        ctx.case("program", p, nn is not None and nn >= 6)
    for i in ctx.mine(24):
        case = {"k": i % 4, "m": (i // 4) % 3, "via": ["define_function", "declare_outputs"][(i // 12) % 2]}
        ctx.guard("declared-poly", case, check_declared_poly, ctx, case)
        ctx.case("declared-poly", case, True)
    from vf.gen.histories import gen_history

    for i in ctx.mine(ctx.n(400, 20000)):
        r = ctx.rng("history", i)
        hist = gen_history(r, max_steps=30, metadata=False)
        re_ = ctx.guard("history", hist, check_history, ctx, hist)
        ctx.case("history", hist, bool(re_))
    from vf.gen.types import Gen

    for i in ctx.mine(ctx.n(800, 100000)):
        r = ctx.rng("retyped", i)
        g = Gen(r, allow_vars=False)
        c = {"k": "Retyped", "op": r.choice(["MakeTuple", "UnpackTuple", "Noop", "CallIndirect"]),
             "rows": [g.row(1, 3, in_row=False) for _ in range(r.randint(2, 3))]}
        ctx.case("Retyped", c, len({len(x) for x in c["rows"]}) > 1)
        ctx.guard("retyped", c, check_retyped, ctx, c)
    maxd = ctx.n(2, 3)
    for i in ctx.mine(ctx.n(16000, 600000)):
        r = ctx.rng("op", i)
        c = gen_case(r, r.randint(0, maxd))
        features(ctx, c)
        ctx.case(c["k"], c, nontrivial(c))
        ctx.guard(c["k"], c, check_case, ctx, c)


def replay(ctx, rec):
    if rec.get("stratum") == "retyped":
        check_retyped(ctx, rec["case"])
    elif rec.get("stratum") == "program":
        check_program_ports(ctx, rec["case"])
    elif rec.get("stratum") == "history":
        check_history(ctx, rec["case"])
    elif rec.get("stratum") == "declared-poly":
        check_declared_poly(ctx, rec["case"])
    elif rec.get("stratum") == "loop-again":
        check_loop_outputs_again(ctx, rec["case"])
    else:
        check_case(ctx, rec["case"])
