"""C09 — package envelopes round-trip and carry the documented header.

Round trips of generated packages under every encodable configuration; header-bit oracle on
the emitted bytes; text-encoding rule; and an exhaustive sweep of the header decoder over all
2^16 (format, flags) byte pairs, all truncations and all single-byte corruptions of the magic."""

from __future__ import annotations

import json

ID = "C09"
MAGIC = b"HUGRiHJv"
META = {
    "level": "exploration",
    "rule": ("round trip: case = {modules: [program AST..], extensions: [descriptor..], config}; non-trivial when "
             ">= 1 module has >= 4 nodes.  sweep: every (format byte, flags byte) pair / truncation / corruption "
             "counts (enumerated exhaustively)"),
    "required": ["monitor:roundtrip-bytes", "monitor:roundtrip-str", "monitor:header-bits",
                 "monitor:sweep-header", "monitor:sweep-read", "monitor:truncation", "monitor:magic-corruption",
                 "monitor:text-rule", "monitor:header-encode", "monitor:ready-made-config", "feature:zstd", "feature:non-ascii", "feature:empty-package",
                 "feature:extensions"],
    "reach": ["hugr.envelope:make_envelope", "hugr.envelope:read_envelope", "hugr.envelope:EnvelopeHeader.to_bytes",
              "hugr.envelope:EnvelopeHeader.from_bytes", "hugr.envelope:EnvelopeConfig._make_header"],
    "assumptions": [
        "MODULE / MODULE_WITH_EXTS cannot be encoded in this image (native printer absent): only their "
        "rejection paths are observed; flag bits 1-5 are not constrained",
        "packages are compared through the documents their modules / extensions re-serialize to "
        "(runtime_reqs as sets)",
    ],
}

ZSTD = [None, 0, 1, 3, 9, 19, 22]


def pkg_docs(pkg):
    from vf.props.c10 import sort_reqs

    mods = []
    for m in pkg.modules:
        d = json.loads(m.to_json())
        d.pop("encoder", None)
        mods.append(sort_reqs(d))
    return {"modules": mods, "extensions": [sort_reqs(json.loads(e.to_json())) for e in pkg.extensions]}


def build_pkg(case):
    from hugr.package import Package
    from vf.gen.extensions import build_extension
    from vf.interp import Interp

    mods = [Interp().run(p) for p in case["modules"]]
    exts = [build_extension(e, eager=len(e["name"]) % 2 == 0) for e in case["extensions"]]
    if mods and exts:
        # a node that names an operation of a shipped extension but carries its OWN description and signature (written
        # against another release of the extension): the package carries documents, decoding re-interprets nothing
        from hugr import ops, tys

        for x_ in exts:
            for name_ in sorted(x_.operations)[:1]:
                mods[0].add_node(ops.Custom(name_, tys.FunctionType([tys.Bool], [tys.Bool, tys.Unit]),
                                            "the node's own description", x_.name, []), mods[0].root)
    return Package(mods, exts)


def _is_value_error(name):
    import builtins

    import pyzstd

    cls = getattr(builtins, name, None) or getattr(pyzstd, name, None) or getattr(json, name, None)
    return isinstance(cls, type) and issubclass(cls, ValueError)


def check_roundtrip(ctx, case, stratum="roundtrip"):
    import pyzstd
    from hugr.envelope import EnvelopeConfig, EnvelopeFormat
    from hugr.package import Package
    from vf.oracles.observe import diff

    pkg = build_pkg(case)
    want = pkg_docs(pkg)
    if not case["modules"] and not case["extensions"]:
        ctx.feat("feature:empty-package")
    if case["extensions"]:
        ctx.feat("feature:extensions")
    if any(ord(c) > 127 for c in json.dumps(want, ensure_ascii=False)):
        ctx.feat("feature:non-ascii")

    def bad(kind, locus, exp, obs):
        ctx.disc(None, kind, locus, exp, obs, stratum=stratum, case=case)

    # one configuration object used for level after level (its `zstd` field re-assigned) in every other case: what an
    # earlier encoding did with it must not stick
    reuse_cfg = len(case["modules"]) % 2 == 0
    shared_cfg = None
    for z in case["zstd"]:
        if reuse_cfg and shared_cfg is not None:
            ctx.count("monitor:config-object-reused")
            try:
                shared_cfg.zstd = z
                cfg = shared_cfg
            except Exception:  # noqa: BLE001  (a frozen configuration cannot be re-used this way)
                ctx.count("observed:config-not-assignable")
                cfg = EnvelopeConfig(format=EnvelopeFormat.JSON, zstd=z)
        else:
            cfg = EnvelopeConfig(format=EnvelopeFormat.JSON, zstd=z)
            shared_cfg = cfg
        raw = pkg.to_bytes(cfg)
        ctx.count("monitor:header-bits")
        if z is not None:
            ctx.feat("feature:zstd")
        if raw[:8] != MAGIC or raw[8] != 63:
            bad("header-magic-format", z, [MAGIC.hex(), 63], [raw[:8].hex(), raw[8]])
        flags = raw[9]
        if (flags & 1) != (0 if z is None else 1) or (flags >> 6) != 0b01:
            bad("header-flags", z, {"bit0": int(z is not None), "bits7,6": "01"}, bin(flags))
        payload = raw[10:]
        try:
            body = pyzstd.decompress(payload) if z is not None else payload
            got_doc = json.loads(body)
            if sorted(got_doc) != ["extensions", "modules"] and sorted(got_doc) != ["modules"]:
                bad("payload-shape", z, ["extensions", "modules"], sorted(got_doc))
        except Exception as e:  # noqa: BLE001
            bad("payload-not-package-json", z, "package JSON (zstd iff bit0)", f"{type(e).__name__}: {e}"[:200])
        ctx.count("monitor:roundtrip-bytes")
        if pkg.to_bytes(cfg) != raw:
            bad("second-encoding-differs", z, "the same bytes", "differs")
        back = pkg_docs(Package.from_bytes(raw))
        if back != want:
            p = diff(want, back)[0]
            bad("roundtrip-bytes", [z, p[0]], p[1], p[2])
        # hostile interleaving: decodes that FAIL (envelope cut inside the header, inside the payload, one payload byte
        # flipped, another magic number) must leave nothing behind -- the valid envelope still decodes to the same
        # package right after each of them (what a malformed payload does is not judged, only what follows)
        cuts = sorted({3, 9, 10, 11, 10 + len(payload) // 2, len(raw) - 1})
        hostile = [raw[:c] for c in cuts if c < len(raw)]
        if len(payload) > 4:
            flipped = bytearray(raw)
            flipped[10 + len(payload) // 2] ^= 0x5A
            hostile.append(bytes(flipped))
        hostile.append(b"XUGRiHJv" + raw[8:])
        for hb in hostile:
            ctx.count("monitor:decode-after-failed-decode")
            try:
                Package.from_bytes(hb)
                outcome = "decoded"
            except Exception as e:  # noqa: BLE001
                outcome = type(e).__name__
            if len(hb) < 10 or hb[:8] != MAGIC:
                ctx.count("monitor:malformed-bytes")
                if outcome == "decoded" or outcome not in ("ValueError",) and not _is_value_error(outcome):
                    bad("malformed-input-not-refused-with-ValueError", [z, len(hb), hb[:8].hex()], "ValueError", outcome)
            try:
                again = pkg_docs(Package.from_bytes(raw))
            except Exception as e:  # noqa: BLE001
                bad("decode-after-failed-decode", [z, len(hb)], "the valid envelope still decodes",
                    f"{type(e).__name__}: {str(e)[:150]}")
                continue
            if again != want:
                p = diff(want, again)[0]
                bad("decode-after-failed-decode", [z, len(hb), p[0]], p[1], p[2])
        if z is None:
            # the same refusals through the text entry point
            for hs in (raw[:3].decode(), raw[:9].decode(), "XUGRiHJv" + raw[8:].decode(),
                       raw[:8].decode("latin-1") + "\x07" + raw[9:].decode()):
                ctx.count("monitor:malformed-str")
                try:
                    Package.from_str(hs)
                    outcome = "decoded"
                except ValueError:
                    outcome = "ValueError"
                except Exception as e:  # noqa: BLE001
                    outcome = type(e).__name__
                if outcome != "ValueError":
                    bad("malformed-text-not-refused-with-ValueError", hs[:12], "ValueError", outcome)
                if pkg_docs(Package.from_str(raw.decode("utf-8"))) != want:
                    bad("decode-after-failed-decode", ["str", hs[:12]], "the valid envelope still decodes", "differs")
        if z is not None:
            # text with a compressing configuration: refused (compressed bytes are no text) -- or, if a string does
            # come back, it is an envelope like any other: its header describes its payload and it decodes to the package
            ctx.count("monitor:to_str-with-zstd")
            try:
                s_ = pkg.to_str(cfg)
            except Exception:  # noqa: BLE001
                s_ = None
            if s_ is not None:
                rb = s_.encode("utf-8")
                compressed = True
                try:
                    pyzstd.decompress(rb[10:])
                except Exception:  # noqa: BLE001
                    compressed = False
                if rb[:8] != MAGIC or (rb[9] & 1) != int(compressed) or (rb[9] >> 6) != 0b01:
                    bad("header-flags[to_str with zstd]", z, {"bit0": int(compressed)}, bin(rb[9]) if len(rb) > 9 else "short")
                try:
                    if pkg_docs(Package.from_str(s_)) != want:
                        bad("roundtrip-str[to_str with zstd]", z, "the same package", "differs")
                except Exception as e:  # noqa: BLE001
                    bad("roundtrip-str[to_str with zstd]", z, "decodes", f"{type(e).__name__}: {str(e)[:120]}")
        if z is None:
            ctx.count("monitor:roundtrip-str")
            s = pkg.to_str(cfg)
            if s != raw.decode("utf-8"):
                bad("to_str-vs-to_bytes", z, "to_bytes decoded", "different")
            back = pkg_docs(Package.from_str(s))
            if back != want:
                p = diff(want, back)[0]
                bad("roundtrip-str", p[0], p[1], p[2])
    # defaults and the two ready-made configurations
    if pkg_docs(Package.from_bytes(pkg.to_bytes())) != want or pkg_docs(Package.from_str(pkg.to_str())) != want:
        bad("roundtrip-default-config", "defaults", "equal", "different")
    # the header of what the defaults write, judged against the payload that follows it (not against a config object)
    ctx.count("monitor:default-config-header")
    for how, raw in (("to_bytes()", pkg.to_bytes()), ("to_str()", pkg.to_str().encode("utf-8"))):
        problem = None
        if raw[:8] != MAGIC or (raw[9] >> 6) != 0b01 or raw[8] not in (1, 2, 63):
            problem = "magic / format byte / bits 7,6"
        else:
            try:
                json.loads(pyzstd.decompress(raw[10:]) if raw[9] & 1 else raw[10:])
            except Exception:  # noqa: BLE001
                problem = "bit 0 does not tell whether the payload is compressed"
        if problem:
            bad("header-of-default-config", how, "a header describing the payload", [problem, raw[:10].hex()])
    for nm in ("TEXT", "BINARY"):
        cfg = getattr(EnvelopeConfig, nm)
        ctx.count("monitor:ready-made-config")
        raw = pkg.to_bytes(cfg)
        if raw[:8] != MAGIC or raw[8] != cfg.format.value or (raw[9] & 1) != int(cfg.zstd is not None) \
                or (raw[9] >> 6) != 0b01:
            bad("header-of-ready-made-config", nm, [cfg.format.value, cfg.zstd], list(raw[8:10]))
        if pkg_docs(Package.from_bytes(raw)) != want:
            bad("roundtrip-ready-made-config", nm, "equal", "different")
        if cfg.format.ascii_printable() and cfg.zstd is None and pkg_docs(Package.from_str(pkg.to_str(cfg))) != want:
            bad("roundtrip-ready-made-config", [nm, "str"], "equal", "different")
    # the package changed AFTER it has been encoded (a module appended, the first extension dropped): the next encoding
    # is that of the package as it is now
    from hugr import Hugr

    ctx.count("monitor:package-changed-after-encoding")
    pkg.modules.append(Hugr())
    if pkg.extensions:
        del pkg.extensions[0]
    want2 = pkg_docs(pkg)
    for cfg in (EnvelopeConfig(format=EnvelopeFormat.JSON, zstd=None), EnvelopeConfig(format=EnvelopeFormat.JSON, zstd=3)):
        back2 = pkg_docs(Package.from_bytes(pkg.to_bytes(cfg)))
        if back2 != want2:
            p = diff(want2, back2)[0]
            bad("roundtrip-after-package-changed", [cfg.zstd, p[0]], p[1], p[2])
    return any(len(m["nodes"]) >= 4 for m in want["modules"])


def check_text_rule(ctx):
    from hugr.envelope import EnvelopeConfig, EnvelopeFormat, EnvelopeHeader
    from hugr.package import Package

    pkg = Package([], [])
    # the header written for EVERY format (the payload of the MODULE formats cannot be produced here, their
    # header can): magic, format byte, flags with bit 0 = compressed and bits 7,6 = 0,1; decodes to itself
    for fmt in EnvelopeFormat:
        for z in (None, 0, 1, 9, 22):
            ctx.count("monitor:header-encode")
            case = {"format": fmt.name, "zstd": z}
            want = MAGIC + bytes([fmt.value, 0x40 | int(z is not None)])
            for how, hb in (("EnvelopeHeader.to_bytes", EnvelopeHeader(fmt, z is not None).to_bytes()),
                            ("EnvelopeConfig._make_header", EnvelopeConfig(fmt, z)._make_header().to_bytes())):
                if hb != want:
                    ctx.disc(None, "header-encode", [how, case], want.hex(), hb.hex(), stratum="text", case=case)
                back = EnvelopeHeader.from_bytes(hb)
                if (back.format, back.zstd) != (fmt, z is not None):
                    ctx.disc(None, "header-encode-decode", [how, case], [fmt.name, z is not None],
                             [back.format.name, back.zstd], stratum="text", case=case)
        if fmt.ascii_printable() != (fmt.value == 63):
            ctx.disc(None, "ascii-printable-formats", fmt.name, fmt.value == 63, fmt.ascii_printable(),
                     stratum="text", case={"format": fmt.name})
    for fmt in EnvelopeFormat:
        for z in (None, 0):
            ctx.count("monitor:text-rule")
            case = {"format": fmt.name, "zstd": z}
            printable = fmt.value == 63
            try:
                pkg.to_str(EnvelopeConfig(format=fmt, zstd=z))
                got = "ok"
            except ValueError:
                got = "ValueError"
            except Exception as e:  # noqa: BLE001
                got = type(e).__name__
            if not printable and got != "ValueError":
                ctx.disc(None, "text-for-non-printable-format", case, "ValueError", got, stratum="text", case=case)
            if printable and z is None and got != "ok":
                ctx.disc(None, "text-refused-for-json", case, "ok", got, stratum="text", case=case)
            if not printable:
                try:
                    pkg.to_bytes(EnvelopeConfig(format=fmt, zstd=z))
                    ctx.count("module-format-encoded")
                except Exception as e:  # noqa: BLE001
                    ctx.count(f"module-format-not-encodable:{type(e).__name__}")


def sweep(ctx):
    import pyzstd
    from hugr.envelope import EnvelopeHeader, read_envelope
    from hugr.package import Package

    pkg = Package([], [])
    ctx.feat("feature:empty-package")   # the empty package is what every pair of this sweep decodes
    plain = pkg._to_serial().model_dump_json().encode()
    comp = pyzstd.compress(plain)
    want = pkg_docs(pkg)
    known = {1, 2, 63}
    for f in ctx.mine(256):
        for g in range(256):
            case = {"format_byte": f, "flags_byte": g}
            ctx.case("sweep", case, True)
            ctx.count("monitor:sweep-header")
            hdr = MAGIC + bytes([f, g])
            try:
                h = EnvelopeHeader.from_bytes(hdr)
                got = ("ok", h.format.value, h.zstd)
            except ValueError:
                got = ("ValueError",)
            except Exception as e:  # noqa: BLE001
                got = (type(e).__name__,)
            exp = ("ok", f, bool(g & 1)) if f in known else ("ValueError",)
            # only the two flag bytes an encoder writes (0x40 / 0x41) are defined by the statement; for the others a
            # decoder may either read bit 0 or refuse
            if got != exp and not (f in known and g not in (0x40, 0x41) and got == ("ValueError",)):
                ctx.disc(None, "header-decode", case, exp, got, stratum="sweep", case=case)
            ctx.count("monitor:sweep-read")
            try:
                p = read_envelope(hdr + (comp if g & 1 else plain))
                got = ("ok", pkg_docs(p) == want)
            except ValueError:
                got = ("ValueError",)
            except Exception as e:  # noqa: BLE001
                got = (type(e).__name__,)
            exp = ("ok", True) if f == 63 else ("ValueError",)
            if got != exp and not (f == 63 and g not in (0x40, 0x41) and got == ("ValueError",)):
                ctx.disc(None, "read-envelope", case, exp, got, stratum="sweep", case=case)
    if ctx.shard == 0:
        good = MAGIC + bytes([63, 0x40]) + plain
        for n in range(10):
            ctx.count("monitor:truncation")
            case = {"truncate_to": n}
            ctx.case("sweep", case, True)
            for fn, name in ((EnvelopeHeader.from_bytes, "header"), (read_envelope, "read")):
                try:
                    fn(good[:n])
                    got = "ok"
                except ValueError:
                    got = "ValueError"
                except Exception as e:  # noqa: BLE001
                    got = type(e).__name__
                if got != "ValueError":
                    ctx.disc(None, "truncated-input-accepted", [name, n], "ValueError", got, stratum="sweep", case=case)
        for pos in range(8):
            for b in range(256):
                if b == MAGIC[pos]:
                    continue
                ctx.count("monitor:magic-corruption")
                case = {"corrupt": [pos, b]}
                ctx.case("sweep", case, True)
                data = bytearray(good)
                data[pos] = b
                try:
                    read_envelope(bytes(data))
                    got = "ok"
                except ValueError:
                    got = "ValueError"
                except Exception as e:  # noqa: BLE001
                    got = type(e).__name__
                if got != "ValueError":
                    ctx.disc(None, "bad-magic-accepted", case, "ValueError", got, stratum="sweep", case=case)
    ctx.extra["exhaustive_subspace"] = ("all 256x256 (format, flags) byte pairs for EnvelopeHeader.from_bytes and "
                                        "read_envelope; all truncations to < 10 bytes; all 8x255 single-byte "
                                        "corruptions of the magic number")


def run(ctx):
    from vf.gen.extensions import gen_extension
    from vf.gen.prog import gen_program

    ctx.guard("sweep", None, sweep, ctx)
    if ctx.shard == 0:
        ctx.guard("text", None, check_text_rule, ctx)
    for i in ctx.mine(ctx.n(160, 12000)):
        r = ctx.rng("roundtrip", i)
        nm = r.choice([0, 1, 1, 2, 3, 4])
        case = {"modules": [gen_program(r, kind="module", budget=12) for _ in range(nm)],
                # (every fourth package lists two DIFFERENT extensions under one name: two releases of one extension)
                "extensions": [gen_extension(r, name=("pkg.ext0" if i % 4 == 1 else f"pkg.ext{j}.ünï") if j == 1
                                             else f"pkg.ext{j}", small=True)
                               for j in range(r.choice([0, 0, 1, 2, 3]) if i % 4 != 1 else r.choice([2, 3]))],
                "zstd": [None] + r.sample(ZSTD[1:], 2)}
        nt = ctx.guard("roundtrip", case, check_roundtrip, ctx, case)
        ctx.case("roundtrip", case, bool(nt))


def replay(ctx, rec):
    st = rec.get("stratum")
    if st == "roundtrip":
        check_roundtrip(ctx, rec["case"])
    elif st == "text":
        check_text_rule(ctx)
    else:
        sweep(ctx)
