"""C09 — package envelopes round-trip and carry the documented header.

Round trips of generated packages under every encodable configuration; header-bit oracle on
the emitted bytes; text-encoding rule; and an exhaustive sweep of the header decoder over all
2^16 (format, flags) byte pairs, all truncations and all single-byte corruptions of the magic."""

from __future__ import annotations

import json

ID = "C09"
MAGIC = b"HUGRiHJv"
META = {
    "level": "exploration",
    "rule": ("round trip: case = {modules: [program AST..], extensions: [descriptor..], config}; non-trivial when "
             ">= 1 module has >= 4 nodes.  sweep: every (format byte, flags byte) pair / truncation / corruption "
             "counts (enumerated exhaustively)"),
    "required": ["monitor:roundtrip-bytes", "monitor:roundtrip-str", "monitor:header-bits",
                 "monitor:sweep-header", "monitor:sweep-read", "monitor:truncation", "monitor:magic-corruption",
                 "monitor:text-rule", "monitor:header-encode", "monitor:ready-made-config", "feature:zstd", "feature:non-ascii", "feature:empty-package",
                 "feature:extensions"],
    "reach": ["hugr.envelope:make_envelope", "hugr.envelope:read_envelope", "hugr.envelope:EnvelopeHeader.to_bytes",
              "hugr.envelope:EnvelopeHeader.from_bytes", "hugr.envelope:EnvelopeConfig._make_header"],
    "assumptions": [
        "MODULE / MODULE_WITH_EXTS cannot be encoded in this image (native printer absent): only their "
        "rejection paths are observed; flag bits 1-5 are not constrained",
        "packages are compared through the documents their modules / extensions re-serialize to "
        "(runtime_reqs as sets)",
    ],
}

ZSTD = [None, 0, 1, 3, 9, 19, 22]


def pkg_docs(pkg):
    from vf.props.c10 import sort_reqs

    mods = []
    for m in pkg.modules:
        d = json.loads(m.to_json())
        d.pop("encoder", None)
        mods.append(sort_reqs(d))
    return {"modules": mods, "extensions": [sort_reqs(json.loads(e.to_json())) for e in pkg.extensions]}


def build_pkg(case):
    from hugr.package import Package
    from vf.gen.extensions import build_extension
    from vf.interp import Interp

    return Package([Interp().run(p) for p in case["modules"]], [build_extension(e) for e in case["extensions"]])


def check_roundtrip(ctx, case, stratum="roundtrip"):
    import pyzstd
    from hugr.envelope import EnvelopeConfig, EnvelopeFormat
    from hugr.package import Package
    from vf.oracles.observe import diff

    pkg = build_pkg(case)
    want = pkg_docs(pkg)
    if not case["modules"] and not case["extensions"]:
        ctx.feat("feature:empty-package")
    if case["extensions"]:
        ctx.feat("feature:extensions")
    if any(ord(c) > 127 for c in json.dumps(want, ensure_ascii=False)):
        ctx.feat("feature:non-ascii")

    def bad(kind, locus, exp, obs):
        ctx.disc(None, kind, locus, exp, obs, stratum=stratum, case=case)

    for z in case["zstd"]:
        cfg = EnvelopeConfig(format=EnvelopeFormat.JSON, zstd=z)
        raw = pkg.to_bytes(cfg)
        ctx.count("monitor:header-bits")
        if z is not None:
            ctx.feat("feature:zstd")
        if raw[:8] != MAGIC or raw[8] != 63:
            bad("header-magic-format", z, [MAGIC.hex(), 63], [raw[:8].hex(), raw[8]])
        flags = raw[9]
        if (flags & 1) != (0 if z is None else 1) or (flags >> 6) != 0b01:
            bad("header-flags", z, {"bit0": int(z is not None), "bits7,6": "01"}, bin(flags))
        payload = raw[10:]
        try:
            body = pyzstd.decompress(payload) if z is not None else payload
            got_doc = json.loads(body)
            if sorted(got_doc) != ["extensions", "modules"] and sorted(got_doc) != ["modules"]:
                bad("payload-shape", z, ["extensions", "modules"], sorted(got_doc))
        except Exception as e:  # noqa: BLE001
            bad("payload-not-package-json", z, "package JSON (zstd iff bit0)", f"{type(e).__name__}: {e}"[:200])
        ctx.count("monitor:roundtrip-bytes")
        if pkg.to_bytes(cfg) != raw:
            bad("second-encoding-differs", z, "the same bytes", "differs")
        back = pkg_docs(Package.from_bytes(raw))
        if back != want:
            p = diff(want, back)[0]
            bad("roundtrip-bytes", [z, p[0]], p[1], p[2])
        if z is None:
            ctx.count("monitor:roundtrip-str")
            s = pkg.to_str(cfg)
            if s != raw.decode("utf-8"):
                bad("to_str-vs-to_bytes", z, "to_bytes decoded", "different")
            back = pkg_docs(Package.from_str(s))
            if back != want:
                p = diff(want, back)[0]
                bad("roundtrip-str", p[0], p[1], p[2])
    # defaults and the two ready-made configurations
    if pkg_docs(Package.from_bytes(pkg.to_bytes())) != want or pkg_docs(Package.from_str(pkg.to_str())) != want:
        bad("roundtrip-default-config", "defaults", "equal", "different")
    for nm in ("TEXT", "BINARY"):
        cfg = getattr(EnvelopeConfig, nm)
        ctx.count("monitor:ready-made-config")
        raw = pkg.to_bytes(cfg)
        if raw[:8] != MAGIC or raw[8] != cfg.format.value or (raw[9] & 1) != int(cfg.zstd is not None) \
                or (raw[9] >> 6) != 0b01:
            bad("header-of-ready-made-config", nm, [cfg.format.value, cfg.zstd], list(raw[8:10]))
        if pkg_docs(Package.from_bytes(raw)) != want:
            bad("roundtrip-ready-made-config", nm, "equal", "different")
        if cfg.format.ascii_printable() and cfg.zstd is None and pkg_docs(Package.from_str(pkg.to_str(cfg))) != want:
            bad("roundtrip-ready-made-config", [nm, "str"], "equal", "different")
    return any(len(m["nodes"]) >= 4 for m in want["modules"])


def check_text_rule(ctx):
    from hugr.envelope import EnvelopeConfig, EnvelopeFormat, EnvelopeHeader
    from hugr.package import Package

    pkg = Package([], [])
    # the header written for EVERY format (the payload of the MODULE formats cannot be produced here, their
    # header can): magic, format byte, flags with bit 0 = compressed and bits 7,6 = 0,1; decodes to itself
    for fmt in EnvelopeFormat:
        for z in (None, 0, 1, 9, 22):
            ctx.count("monitor:header-encode")
            case = {"format": fmt.name, "zstd": z}
            want = MAGIC + bytes([fmt.value, 0x40 | int(z is not None)])
            for how, hb in (("EnvelopeHeader.to_bytes", EnvelopeHeader(fmt, z is not None).to_bytes()),
                            ("EnvelopeConfig._make_header", EnvelopeConfig(fmt, z)._make_header().to_bytes())):
                if hb != want:
                    ctx.disc(None, "header-encode", [how, case], want.hex(), hb.hex(), stratum="text", case=case)
                back = EnvelopeHeader.from_bytes(hb)
                if (back.format, back.zstd) != (fmt, z is not None):
                    ctx.disc(None, "header-encode-decode", [how, case], [fmt.name, z is not None],
                             [back.format.name, back.zstd], stratum="text", case=case)
        if fmt.ascii_printable() != (fmt.value == 63):
            ctx.disc(None, "ascii-printable-formats", fmt.name, fmt.value == 63, fmt.ascii_printable(),
                     stratum="text", case={"format": fmt.name})
    for fmt in EnvelopeFormat:
        for z in (None, 0):
            ctx.count("monitor:text-rule")
            case = {"format": fmt.name, "zstd": z}
            printable = fmt.value == 63
            try:
                pkg.to_str(EnvelopeConfig(format=fmt, zstd=z))
                got = "ok"
            except ValueError:
                got = "ValueError"
            except Exception as e:  # noqa: BLE001
                got = type(e).__name__
            if not printable and got != "ValueError":
                ctx.disc(None, "text-for-non-printable-format", case, "ValueError", got, stratum="text", case=case)
            if printable and z is None and got != "ok":
                ctx.disc(None, "text-refused-for-json", case, "ok", got, stratum="text", case=case)
            if not printable:
                try:
                    pkg.to_bytes(EnvelopeConfig(format=fmt, zstd=z))
                    ctx.count("module-format-encoded")
                except Exception as e:  # noqa: BLE001
                    ctx.count(f"module-format-not-encodable:{type(e).__name__}")


def sweep(ctx):
    import pyzstd
    from hugr.envelope import EnvelopeHeader, read_envelope
    from hugr.package import Package

    pkg = Package([], [])
    ctx.feat("feature:empty-package")   # the empty package is what every pair of this sweep decodes
    plain = pkg._to_serial().model_dump_json().encode()
    comp = pyzstd.compress(plain)
    want = pkg_docs(pkg)
    known = {1, 2, 63}
    for f in ctx.mine(256):
        for g in range(256):
            case = {"format_byte": f, "flags_byte": g}
            ctx.case("sweep", case, True)
            ctx.count("monitor:sweep-header")
            hdr = MAGIC + bytes([f, g])
            try:
                h = EnvelopeHeader.from_bytes(hdr)
                got = ("ok", h.format.value, h.zstd)
            except ValueError:
                got = ("ValueError",)
            except Exception as e:  # noqa: BLE001
                got = (type(e).__name__,)
            exp = ("ok", f, bool(g & 1)) if f in known else ("ValueError",)
            # only the two flag bytes an encoder writes (0x40 / 0x41) are defined by the statement; for the others a
            # decoder may either read bit 0 or refuse
            if got != exp and not (f in known and g not in (0x40, 0x41) and got == ("ValueError",)):
                ctx.disc(None, "header-decode", case, exp, got, stratum="sweep", case=case)
            ctx.count("monitor:sweep-read")
            try:
                p = read_envelope(hdr + (comp if g & 1 else plain))
                got = ("ok", pkg_docs(p) == want)
            except ValueError:
                got = ("ValueError",)
            except Exception as e:  # noqa: BLE001
                got = (type(e).__name__,)
            exp = ("ok", True) if f == 63 else ("ValueError",)
            if got != exp and not (f == 63 and g not in (0x40, 0x41) and got == ("ValueError",)):
                ctx.disc(None, "read-envelope", case, exp, got, stratum="sweep", case=case)
    if ctx.shard == 0:
        good = MAGIC + bytes([63, 0x40]) + plain
        for n in range(10):
            ctx.count("monitor:truncation")
            case = {"truncate_to": n}
            ctx.case("sweep", case, True)
            for fn, name in ((EnvelopeHeader.from_bytes, "header"), (read_envelope, "read")):
                try:
                    fn(good[:n])
                    got = "ok"
                except ValueError:
                    got = "ValueError"
                except Exception as e:  # noqa: BLE001
                    got = type(e).__name__
                if got != "ValueError":
                    ctx.disc(None, "truncated-input-accepted", [name, n], "ValueError", got, stratum="sweep", case=case)
        for pos in range(8):
            for b in range(256):
                if b == MAGIC[pos]:
                    continue
                ctx.count("monitor:magic-corruption")
                case = {"corrupt": [pos, b]}
                ctx.case("sweep", case, True)
                data = bytearray(good)
                data[pos] = b
                try:
                    read_envelope(bytes(data))
                    got = "ok"
                except ValueError:
                    got = "ValueError"
                except Exception as e:  # noqa: BLE001
                    got = type(e).__name__
                if got != "ValueError":
                    ctx.disc(None, "bad-magic-accepted", case, "ValueError", got, stratum="sweep", case=case)
    ctx.extra["exhaustive_subspace"] = ("all 256x256 (format, flags) byte pairs for EnvelopeHeader.from_bytes and "
                                        "read_envelope; all truncations to < 10 bytes; all 8x255 single-byte "
                                        "corruptions of the magic number")


def run(ctx):
    from vf.gen.extensions import gen_extension
    from vf.gen.prog import gen_program

    ctx.guard("sweep", None, sweep, ctx)
    if ctx.shard == 0:
        ctx.guard("text", None, check_text_rule, ctx)
    for i in ctx.mine(ctx.n(160, 20000)):
        r = ctx.rng("roundtrip", i)
        nm = r.choice([0, 1, 1, 2, 3, 4])
        case = {"modules": [gen_program(r, kind="module", budget=12) for _ in range(nm)],
                "extensions": [gen_extension(r, name=f"pkg.ext{j}.ünï" if j == 1 else f"pkg.ext{j}", small=True)
                               for j in range(r.choice([0, 0, 1, 2, 3]))],
                "zstd": [None] + r.sample(ZSTD[1:], 2)}
        nt = ctx.guard("roundtrip", case, check_roundtrip, ctx, case)
        ctx.case("roundtrip", case, bool(nt))


def replay(ctx, rec):
    st = rec.get("stratum")
    if st == "roundtrip":
        check_roundtrip(ctx, rec["case"])
    elif st == "text":
        check_text_rule(ctx)
    else:
        sweep(ctx)
