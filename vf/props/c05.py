"""C05 — types, values and operations survive encoding and decoding unchanged.

Codec differential per object x: j = dump(x); y = decode(json text of j) (and through the
python-dict route); dump(y) == j; derived facts equal; attribute trees equal (y == x built in
opaque mode); encoding equals the independently written wire form; sugar == general forms.
Foreign-document stratum: documents written the way hugr-core writes them are loaded and
re-saved and must keep every node, op attribute, edge (incl. null-offset order edges) and
metadata."""

from __future__ import annotations

import json

ID = "C05"
META = {
    "level": "exploration",
    "rule": ("case = descriptor of a type / param / arg / value / op, or a foreign-style document; distinct by "
             "JSON; non-trivial when nesting depth >= 2, or an op with >= 1 non-default attribute, or a document "
             "with >= 1 null-offset edge"),
    "required": ["monitor:type-roundtrip", "monitor:value-roundtrip", "monitor:op-roundtrip",
                 "monitor:param-roundtrip", "monitor:arg-roundtrip", "monitor:sugar-eq",
                 "monitor:op-encoding-vs-spec", "monitor:foreign-doc", "monitor:foreign-links-in-memory", "feature:order-edge-at-offset-0", "monitor:doc-route", "feature:null-offset-edge", "feature:funcdefn-params",
                 "feature:block-delta", "feature:custom-description", "feature:extop"],
    "reach": ["hugr._serialization.ops:FuncDefn.deserialize", "hugr._serialization.ops:DataflowBlock.deserialize",
              "hugr._serialization.ops:ExtensionOp.deserialize", "hugr._serialization.tys:Opaque.deserialize",
              "hugr.hugr.base:Hugr._from_serial"],
    "assumptions": [
        "signatures compared on rows; runtime_reqs only through the document fixed point",
        "foreign documents are produced by a harness-side writer that follows hugr-core's serialize.rs "
        "(null offsets for order edges between dataflow nodes, metadata list with null holes, shuffled keys, "
        "Unit sums respelled as General and tuple values as Sum values); each is schema-validated first",
        "type depth <= 3/4, value depth <= 3/5",
    ],
}

OPK = ["Input", "Output", "DFG", "CFG", "DataflowBlock", "ExitBlock", "Conditional", "Case", "TailLoop",
       "Tag", "TagSugar", "MakeTuple", "UnpackTuple", "Noop", "CallIndirect", "Call", "LoadFunc",
       "LoadConst", "Const", "FuncDefn", "FuncDecl", "Custom", "ExtOp", "Module", "AliasDecl", "AliasDefn"]


def dump(x):
    return x._to_serial_root().model_dump(mode="json")


def dump_op(op):
    from hugr import Node

    return op._to_serial(Node(0)).model_dump(mode="json")


def decode(model, j, route):
    if route == "json":
        m = model.model_validate_json(json.dumps(j))
    else:
        m = model.model_validate(json.loads(json.dumps(j)))
    return m


def doc_route(ctx, op, what, stratum, case):
    """the object, carried by a module-level operation, through the public document route
    Hugr.to_json -> Hugr.load_json: the reloaded node must encode exactly as before"""
    from hugr import Hugr, ops

    ctx.count("monitor:doc-route")
    h = Hugr(ops.Module())
    n = h.add_node(op, h.root)
    want = dump_op(op)
    try:
        h2 = Hugr.load_json(h.to_json())
        got = dump_op(h2[n].op)
    except Exception as e:  # noqa: BLE001
        ctx.disc(None, "doc-route-raises", [what, type(e).__name__], "to_json -> load_json succeeds", str(e)[:300],
                 stratum=stratum, case=case)
        return
    if got != want:
        ctx.disc(None, "doc-route-reencode", what, want, got, stratum=stratum, case=case)


def veq(a, b):
    """attribute-by-attribute equality of two values (sugar classes equal to their general forms)"""
    from hugr import val

    if not isinstance(a, val.Extension) and hasattr(a, "to_value"):
        a = a.to_value()
    if not isinstance(b, val.Extension) and hasattr(b, "to_value"):
        b = b.to_value()
    if isinstance(a, val.Extension) or isinstance(b, val.Extension):
        return (isinstance(a, val.Extension) and isinstance(b, val.Extension) and a.name == b.name
                and dump(a.typ) == dump(b.typ) and set(a.extensions) == set(b.extensions)
                and dump(a)["value"] == dump(b)["value"])
    if isinstance(a, val.Function) or isinstance(b, val.Function):
        return (isinstance(a, val.Function) and isinstance(b, val.Function)
                and json.loads(a.body.to_json()) == json.loads(b.body.to_json()))
    if isinstance(a, val.Sum) and isinstance(b, val.Sum):
        # (types by their encoding: extension types come back in opaque form)
        return (a.tag == b.tag and dump(a.typ) == dump(b.typ) and len(a.vals) == len(b.vals)
                and all(veq(x, y) for x, y in zip(a.vals, b.vals)))
    return False


# ------------------------------------------------------------------------------------ types / params / args
def check_type(ctx, d, stratum="type"):
    import hugr._serialization.tys as stys
    from vf.gen.types import Builder, ref_bound, wire_ty
    from vf.oracles import wire

    x = Builder().ty(d)
    xo = Builder(opaque=True).ty(d)
    j = dump(x)
    ctx.count("monitor:type-roundtrip")
    if wire.canon(j) != wire.canon(wire_ty(d)):
        ctx.disc(None, "type-encoding-vs-spec", d[0], wire_ty(d), j, stratum=stratum, case=d)
    for route in ("json", "dict"):
        y = decode(stys.Type, j, route).deserialize()
        j2 = dump(y)
        if j2 != j:
            ctx.disc(None, "type-reencode", [d[0], route], j, j2, stratum=stratum, case=d)
        if y.type_bound().value != ref_bound(d) or x.type_bound() != y.type_bound():
            ctx.disc(None, "type-bound-after-decode", [d[0], route], ref_bound(d),
                     y.type_bound().value, stratum=stratum, case=d)
        if not (y == xo and xo == y):
            ctx.disc(None, "type-attributes", [d[0], route], repr(xo), repr(y), stratum=stratum, case=d)
    from hugr import ops

    doc_route(ctx, ops.AliasDefn("a", x), "type", stratum, d)


def check_param(ctx, p):
    import hugr._serialization.tys as stys
    from vf.gen.types import Builder, wire_param

    x = Builder().param(p)
    j = dump(x)
    ctx.count("monitor:param-roundtrip")
    if j != wire_param(p):
        ctx.disc(None, "param-encoding-vs-spec", p[0], wire_param(p), j, stratum="param", case=p)
    for route in ("json", "dict"):
        y = decode(stys.TypeParam, j, route).deserialize()
        if dump(y) != j:
            ctx.disc(None, "param-reencode", p[0], j, dump(y), stratum="param", case=p)
        if y != x:
            ctx.disc(None, "param-attributes", p[0], repr(x), repr(y), stratum="param", case=p)
    from hugr import ops, tys

    doc_route(ctx, ops.FuncDecl("d", tys.PolyFuncType([x], tys.FunctionType.empty())), "param", "param", p)


def check_arg(ctx, a):
    import hugr._serialization.tys as stys
    from vf.gen.types import Builder, wire_arg
    from vf.oracles import wire

    x = Builder().arg(a)
    xo = Builder(opaque=True).arg(a)
    j = dump(x)
    ctx.count("monitor:arg-roundtrip")
    if wire.canon(j) != wire.canon(wire_arg(a)):
        ctx.disc(None, "arg-encoding-vs-spec", a[0], wire_arg(a), j, stratum="arg", case=a)
    for route in ("json", "dict"):
        y = decode(stys.TypeArg, j, route).deserialize()
        if dump(y) != j:
            ctx.disc(None, "arg-reencode", a[0], j, dump(y), stratum="arg", case=a)
        if y != xo:
            ctx.disc(None, "arg-attributes", a[0], repr(xo), repr(y), stratum="arg", case=a)
    from hugr import ops, tys

    doc_route(ctx, ops.Custom("op", tys.FunctionType.empty(), "", "some.ext", [x]), "arg", "arg", a)


# ------------------------------------------------------------------------------------ sugar
def check_sugar(ctx, c):
    from hugr import tys, val
    from vf.gen.types import Builder
    from vf.gen.values import VBuilder, rows_of, type_of

    ctx.count("monitor:sugar-eq")
    B = Builder()
    if c[0] == "ty":
        d = c[1]
        x = B.ty(d)
        g = tys.Sum([B.row(r) for r in rows_of(d)])
        if not (x == g and g == x):
            ctx.disc(None, "sugar-type-eq", d[0], "== general Sum", [repr(x), repr(g)], stratum="sugar", case=c)
        if x.type_bound() != g.type_bound():
            ctx.disc(None, "sugar-type-bound", d[0], g.type_bound().value, x.type_bound().value,
                     stratum="sugar", case=c)
    else:
        vd = c[1]
        # (the helper gets one-shot iterables for half of the cases; the general form is built from fields that
        # were constructed independently of the helper's result)
        V = VBuilder(B, one_shot=len(json.dumps(vd)) % 2 == 1).val(vd)
        t = type_of(vd)
        from vf.props.c14 import EXPECT_TAG

        tag = EXPECT_TAG[vd[0]] if vd[0] in EXPECT_TAG else vd[1]
        kids = vd[2] if vd[0] == "right" else vd[1] if vd[0] in ("tuple", "some", "left") else []
        fields = [VBuilder(B).val(x) for x in kids]
        if len(fields) != len(V.vals):
            ctx.disc(None, "sugar-value-fields", vd[0], len(fields), len(V.vals), stratum="sugar", case=c)
        G = val.Sum(tag, tys.Sum([B.row(r) for r in rows_of(t)]), fields)
        if not (V == G and G == V):
            ctx.disc(None, "sugar-value-eq", vd[0], "== general Sum value", [repr(V), repr(G)],
                     stratum="sugar", case=c)
        if not (V.type_() == G.type_()):
            ctx.disc(None, "sugar-value-type", vd[0], repr(G.type_()), repr(V.type_()),
                     stratum="sugar", case=c)
        if V.type_().type_bound() != G.type_().type_bound():
            ctx.disc(None, "sugar-value-bound", vd[0], "same bound", "different", stratum="sugar", case=c)


def payload_problems(vd, j, path="v"):
    """the encoded value carries exactly the payload of its descriptor: integer / float / string contents, tags,
    element order and count, custom payloads (independent of the library: descriptor vs JSON)"""
    k = vd[0]
    out = []

    def bad(what, exp, got):
        out.append((f"{path}: {what}", exp, got))

    def kids(vds, js, where):
        if len(vds) != len(js):
            bad(f"{where} count", len(vds), len(js))
            return
        for i, (a, b) in enumerate(zip(vds, js)):
            out.extend(payload_problems(a, b, f"{path}.{where}[{i}]"))

    if k in ("int", "float", "string", "array", "list", "sarray", "extv"):
        if j.get("v") != "Extension":
            bad("kind", "Extension", j.get("v"))
            return out
        pay = j["value"]["v"]
        if k == "int" and pay != {"log_width": vd[1], "value": vd[2] % 2 ** (2 ** vd[1])}:
            # (the stored value is unsigned: (value mod 2^N), N = 2^log_width)
            bad("ConstInt payload", {"log_width": vd[1], "value": vd[2] % 2 ** (2 ** vd[1])}, pay)
        if k == "float" and (not isinstance(pay, dict) or json.dumps(pay.get("value")) != json.dumps(float(vd[1]))):
            bad("ConstF64 payload", vd[1], pay)
        if k == "string" and pay != {"value": vd[1]}:
            bad("ConstString payload", vd[1], pay)
        if k in ("array", "list"):
            kids(vd[2], pay.get("values", []), "values")
        if k == "sarray":
            if pay.get("name") != vd[3]:
                bad("static array name", vd[3], pay.get("name"))
            kids(vd[2], (pay.get("value") or {}).get("values", []), "values")
        if k == "extv":
            if j["value"] != {"c": vd[1], "v": json.loads(json.dumps(vd[3]))}:
                bad("custom payload", {"c": vd[1], "v": vd[3]}, j["value"])
            if sorted(j.get("extensions", [])) != sorted(vd[4]):
                bad("custom extensions", sorted(vd[4]), sorted(j.get("extensions", [])))
    elif k == "func":
        if j.get("v") != "Function":
            bad("kind", "Function", j.get("v"))
    else:
        from vf.props.c14 import EXPECT_TAG

        if j.get("v") == "Tuple":
            tag = 0
        else:
            tag = j.get("tag")
        want_tag = EXPECT_TAG[k] if k in EXPECT_TAG else vd[1]
        if tag != want_tag:
            bad("tag", want_tag, tag)
        fields = {"sum": lambda: vd[3], "tuple": lambda: vd[1], "some": lambda: vd[1], "left": lambda: vd[1],
                  "right": lambda: vd[2]}.get(k, lambda: [])()
        kids(fields, j.get("vs", []), "vs")
    return out


# ------------------------------------------------------------------------------------ values
def check_value(ctx, case, stratum="value"):
    import hugr._serialization.ops as sops
    from vf.gen.types import Builder
    from vf.gen.values import VBuilder
    from vf.oracles import wire

    td, vd = case
    V = VBuilder(Builder(), one_shot=len(json.dumps(vd)) % 3 == 1).val(vd)
    Vo = VBuilder(Builder(opaque=True)).val(vd)
    j = dump(V)
    ctx.count("monitor:value-roundtrip")
    for what, exp, got in payload_problems(vd, j)[:3]:
        ctx.disc(None, "value-encoding-vs-descriptor", what, exp, got, stratum=stratum, case=case)
    for route in ("json", "dict"):
        y = decode(sops.Value, j, route).deserialize()
        j2 = dump(y)
        if j2 != j:
            ctx.disc(None, "value-reencode", [vd[0], route], j, j2, stratum=stratum, case=case)
        if wire.canon(dump(y.type_())) != wire.canon(dump(V.type_())):
            ctx.disc(None, "value-type-after-decode", [vd[0], route], dump(V.type_()), dump(y.type_()),
                     stratum=stratum, case=case)
        if not (veq(y, Vo) and veq(Vo, y)):
            ctx.disc(None, "value-attributes", [vd[0], route], repr(Vo)[:400], repr(y)[:400], stratum=stratum,
                     case=case)
    from hugr import ops

    doc_route(ctx, ops.Const(V), "value", stratum, case)
    # a function value encoded, its body changed in place, encoded again: the second encoding is that of the body as it
    # is now (found by walking the value for function values)
    from hugr import val as _val

    def functions(v_):
        if isinstance(v_, _val.Function):
            yield v_
        for attr in ("vals",):
            for x_ in getattr(v_, attr, None) or []:
                yield from functions(x_)

    for fv in list(functions(V))[:1]:
        ctx.count("monitor:function-value-changed-after-encoding")
        dump(V)
        body = fv.body
        body[body.root].metadata["changed-after-encoding"] = [1, 2]
        j3 = dump(fv)
        md = (j3.get("hugr") or {}).get("metadata") or []
        if not any(isinstance(m_, dict) and "changed-after-encoding" in m_ for m_ in md):
            ctx.disc(None, "value-encoding-remembered", "function value after its body changed",
                     "metadata 'changed-after-encoding' on the body's root", md[:2], stratum=stratum, case=case)
        del body[body.root].metadata["changed-after-encoding"]


# ------------------------------------------------------------------------------------ ops
def gen_op(r, depth):
    from vf.gen.types import REQS, Gen
    from vf.props import c06

    k = r.choice(OPK)
    if k == "Module":
        return {"k": k}
    g = Gen(r, allow_vars=False)
    if k == "AliasDecl":
        return {"k": k, "name": r.choice(["A", "ünï", "", " a\n"]), "b": r.choice("CA")}
    if k == "AliasDefn":
        return {"k": k, "name": r.choice(["A", "ünï", "", " a\n"]), "ty": g.ty(depth)}
    c = c06.gen_case(r, depth, kind=k)
    if k in ("DFG", "TailLoop", "DataflowBlock"):
        c["delta"] = r.sample(REQS, r.choice([0, 1, 2, 3]))
    if k == "Custom":
        c["desc"] = r.choice(["", "a description", "ünï ✓", "ends with a newline\n", "  indented"])
        c["ext"] = r.choice(["some.ext", "", "verif.test"])
        # names are free text: bare, qualified with the operation's own extension id (as some writers do), qualified
        # with another prefix, starting with a dot, padded, non-ASCII
        c["opname"] = r.choice(["op", c["ext"] + ".op", c["ext"] + ".op", "other.ext.op", ".hidden", " op ", "öp",
                                c["ext"] + "." + c["ext"] + ".op"])
    if k == "FuncDecl":
        c["name"] = r.choice(["decl", "", "a.b::c", " decl\n", "ƒ", "main"])
    if k == "ExtOp":
        c["desc"] = r.choice(["", "def description"])
        # how the definition declares its signature: computed ("binary"), or a monomorphic type scheme -- then the
        # operation carries its own signature (the same rows, possibly with further requirements) or none at all
        c["defsig"] = r.choice(["binary", "binary", "mono+own", "mono+own-reqs", "mono"])
        if c["defsig"] != "binary":
            c["args"] = []
    return c


def build_op(c, B):
    from hugr import ext, ops, tys
    from vf.gen.values import VBuilder

    k = c["k"]
    row = B.row
    if k == "Module":
        return ops.Module()
    if k == "AliasDecl":
        return ops.AliasDecl(c["name"], B.bound(c["b"]))
    if k == "AliasDefn":
        return ops.AliasDefn(c["name"], B.ty(c["ty"]))
    if k == "Input":
        return ops.Input(row(c["types"]))
    if k == "Output":
        return ops.Output(row(c["types"]))
    if k == "DFG":
        return ops.DFG(row(c["ins"]), row(c["outs"]), list(c["delta"]))
    if k == "CFG":
        return ops.CFG(row(c["ins"]), row(c["outs"]))
    if k == "DataflowBlock":
        return ops.DataflowBlock(row(c["ins"]), tys.Sum([row(r) for r in c["rows"]]), row(c["other"]),
                                 list(c["delta"]))
    if k == "ExitBlock":
        return ops.ExitBlock(row(c["types"]))
    if k == "Conditional":
        return ops.Conditional(tys.Sum([row(r) for r in c["rows"]]), row(c["other"]), row(c["outs"]))
    if k == "Case":
        return ops.Case(row(c["ins"]), row(c["outs"]))
    if k == "TailLoop":
        return ops.TailLoop(row(c["just_in"]), row(c["rest"]), row(c["just_out"]), list(c["delta"]))
    if k == "Tag":
        return ops.Tag(c["tag"], tys.Sum([row(r) for r in c["rows"]]))
    if k == "TagSugar":
        s = c["sugar"]
        if s == "Some":
            return ops.Some(*row(c["a"]))
        return getattr(ops, s)(tys.Either(row(c["a"]), row(c["b"])))
    if k == "MakeTuple":
        return ops.MakeTuple(row(c["types"]))
    if k == "UnpackTuple":
        return ops.UnpackTuple(row(c["types"]))
    if k == "Noop":
        return ops.Noop(B.ty(c["ty"]))
    if k == "CallIndirect":
        return ops.CallIndirect(tys.FunctionType(row(c["ins"]), row(c["outs"])))
    if k in ("Call", "LoadFunc"):
        sig = tys.PolyFuncType([B.param(p) for p in c["params"]], B.func(c["body"]))
        inst = B.func(c["inst"]) if c["params"] else None
        targs = [B.arg(a) for a in c["targs"]] if c["params"] else None
        return (ops.Call if k == "Call" else ops.LoadFunc)(sig, inst, targs)
    if k == "LoadConst":
        return ops.LoadConst(B.ty(c["ty"]))
    if k == "Const":
        return ops.Const(VBuilder(B).val(c["val"]))
    if k == "FuncDefn":
        return ops.FuncDefn(c["name"], row(c["body"][1]), [B.param(p) for p in c["params"]],
                            row(c["body"][2]))
    if k == "FuncDecl":
        return ops.FuncDecl(c.get("name", "decl"),
                            tys.PolyFuncType([B.param(p) for p in c["params"]], B.func(c["body"])))
    if k == "Custom":
        return ops.Custom(c.get("opname", "op"), tys.FunctionType(row(c["ins"]), row(c["outs"])), c["desc"], c["ext"],
                          [B.arg(a) for a in c["args"]])
    if k == "ExtOp":
        e = ext.Extension("gen.ext", ext.Version(1, 0, 0))
        how = c.get("defsig", "binary")
        if how == "binary":
            od = e.add_op_def(ext.OpDef("gop", ext.OpDefSig(None, binary=True), c["desc"]))
            return od.instantiate([B.arg(a) for a in c["args"]],
                                  tys.FunctionType(row(c["ins"]), row(c["outs"])))
        od = e.add_op_def(ext.OpDef("gop", ext.OpDefSig(tys.FunctionType(row(c["ins"]), row(c["outs"])), binary=False),
                                    c["desc"]))
        own = {"mono": None, "mono+own": tys.FunctionType(row(c["ins"]), row(c["outs"])),
               "mono+own-reqs": tys.FunctionType(row(c["ins"]), row(c["outs"]), ["prelude", "z.ext"])}[how]
        return od.instantiate([], own)
    raise AssertionError(k)


def facts(op):
    """Derived facts of an op object, as comparable data."""
    from hugr import InPort, Node, OutPort, ops
    from vf.props.c06 import kind_repr, sig_rows

    f = {}
    try:
        f["num_out"] = op.num_out
    except Exception as e:  # noqa: BLE001
        f["num_out"] = ["raised", type(e).__name__]
    if isinstance(op, ops.DataflowOp):
        f["outer"] = sig_rows(op.outer_signature())
    if hasattr(op, "inner_signature"):
        f["inner"] = sig_rows(op.inner_signature())
    n = Node(0)
    hi = 1
    for key in ("outer", "inner"):
        if key in f:
            hi = max(hi, len(f[key][0]), len(f[key][1]))
    for side, mk in (("in", InPort), ("out", OutPort)):
        for off in range(-1, hi + 2):
            try:
                f[f"{side}{off}"] = kind_repr(op.port_kind(mk(n, off)))
            except Exception as e:  # noqa: BLE001
                f[f"{side}{off}"] = ["raised", type(e).__name__]
    return f


def op_nontrivial(c):
    return any(c.get(key) for key in ("delta", "desc", "params", "args", "rows", "ins", "outs", "types"))


def wire_op(c):
    """the document an operation of this descriptor has to be written as (hugr-core's serialized op formats),
    computed from the descriptor alone; None where no independent expectation is written down (constants: see the
    value stratum)"""
    from vf.gen.types import wire_arg, wire_func, wire_poly, wire_row, wire_ty

    k = c["k"]

    def fn(ins, outs, reqs=()):
        return wire_func(["func", ins, outs, list(reqs)])

    def prelude(name, ins, outs, args):
        return {"op": "Extension", "extension": "prelude", "name": name, "signature": fn(ins, outs, ["prelude"]),
                "args": args}

    if k == "Module":
        return {"op": "Module"}
    if k == "AliasDecl":
        return {"op": "AliasDecl", "name": c["name"], "bound": c["b"]}
    if k == "AliasDefn":
        return {"op": "AliasDefn", "name": c["name"], "definition": wire_ty(c["ty"])}
    if k in ("Input", "Output"):
        return {"op": k, "types": wire_row(c["types"])}
    if k == "ExitBlock":
        return {"op": k, "cfg_outputs": wire_row(c["types"])}
    if k in ("DFG", "CFG", "Case", "CallIndirect"):
        return {"op": k, "signature": fn(c["ins"], c["outs"], c.get("delta", []) if k == "DFG" else [])}
    if k == "DataflowBlock":
        return {"op": k, "inputs": wire_row(c["ins"]), "other_outputs": wire_row(c["other"]),
                "sum_rows": [wire_row(r) for r in c["rows"]], "extension_delta": list(c["delta"])}
    if k == "Conditional":
        return {"op": k, "other_inputs": wire_row(c["other"]), "outputs": wire_row(c["outs"]),
                "sum_rows": [wire_row(r) for r in c["rows"]]}
    if k == "TailLoop":
        return {"op": k, "just_inputs": wire_row(c["just_in"]), "just_outputs": wire_row(c["just_out"]),
                "rest": wire_row(c["rest"]), "extension_delta": list(c["delta"])}
    if k == "Tag":
        return {"op": "Tag", "tag": c["tag"], "variants": [wire_row(r) for r in c["rows"]]}
    if k == "TagSugar":
        s = c["sugar"]
        rows = [[], c["a"]] if s == "Some" else [c["a"], c["b"]]
        return {"op": "Tag", "tag": {"Some": 1, "Left": 0, "Right": 1, "Continue": 0, "Break": 1}[s],
                "variants": [wire_row(r) for r in rows]}
    if k == "MakeTuple":
        return prelude(k, c["types"], [["tuple", c["types"]]], [{"tya": "Sequence", "elems": [wire_arg(["t", t]) for t in c["types"]]}])
    if k == "UnpackTuple":
        return prelude(k, [["tuple", c["types"]]], c["types"], [{"tya": "Sequence", "elems": [wire_arg(["t", t]) for t in c["types"]]}])
    if k == "Noop":
        return prelude(k, [c["ty"]], [c["ty"]], [wire_arg(["t", c["ty"]])])
    if k in ("Call", "LoadFunc"):
        out = {"op": "Call" if k == "Call" else "LoadFunction", "func_sig": wire_poly(c["params"], c["body"])}
        if c["params"]:
            out["type_args"] = [wire_arg(a) for a in c["targs"]]
            out["instantiation"] = wire_func(c["inst"])
        else:
            out["type_args"] = []
            out["instantiation"] = wire_func(c["body"])
        return out
    if k == "LoadConst":
        return {"op": "LoadConstant", "datatype": wire_ty(c["ty"])}
    if k == "FuncDefn":
        # (a function definition is built from rows; it declares no requirements of its own)
        return {"op": k, "name": c["name"], "signature": wire_poly(c["params"], [*c["body"][:3], []])}
    if k == "FuncDecl":
        return {"op": k, "name": c.get("name", "decl"), "signature": wire_poly(c["params"], c["body"])}
    if k == "Custom":
        return {"op": "Extension", "extension": c["ext"], "name": c.get("opname", "op"), "signature": fn(c["ins"], c["outs"]),
                "description": c["desc"], "args": [wire_arg(a) for a in c["args"]]}
    if k == "ExtOp":
        # an operation backed by a definition is written as hugr-core's ExtensionOp::make_opaque writes it: extension
        # and name of the definition, the cached signature, the type arguments and the DEFINITION's description
        # (a definition held by an extension names that extension among its requirements, cf. C10)
        reqs = ["gen.ext", "prelude", "z.ext"] if c.get("defsig") == "mono+own-reqs" else ["gen.ext"]
        return {"op": "Extension", "extension": "gen.ext", "name": "gop",
                "signature": fn(c["ins"], c["outs"], reqs),
                "description": c["desc"], "args": [wire_arg(a) for a in c["args"]]}
    return None


def op_canon(j):
    """canonical form of an op document for the comparison with wire_op: types canonical, requirement lists as sets,
    keys the expectation does not mention dropped by the caller"""
    from vf.oracles import wire

    def walk(x, key=None):
        if isinstance(x, dict):
            if "t" in x and x["t"] in ("Sum", "G", "Opaque", "V", "R", "I", "Q", "Alias"):
                return wire.canon(x)
            return {k: walk(v, k) for k, v in x.items()}
        if isinstance(x, list):
            if key in ("extension_delta", "runtime_reqs"):
                return sorted(set(x))
            return [walk(v) for v in x]
        return x

    return walk(j)


def check_op(ctx, c, stratum="op"):
    import hugr._serialization.ops as sops
    from hugr import ops
    from vf.gen.types import Builder

    op = build_op(c, Builder())
    opo = build_op(c, Builder(opaque=True))
    j = dump_op(op)
    ctx.count("monitor:op-roundtrip")
    k = c["k"]
    want = wire_op(c)
    if want is not None:
        ctx.count("monitor:op-encoding-vs-spec")
        wj, gj = op_canon(want), op_canon({kk: v for kk, v in j.items() if kk in want})
        if wj != gj:
            from vf.oracles.observe import diff

            pth = diff(wj, gj)[0]
            ctx.disc(None, f"op-encoding-vs-spec[{k}]", [k, pth[0]], pth[1], pth[2], stratum=stratum, case=c)
    if k == "FuncDefn" and c["params"]:
        ctx.feat("feature:funcdefn-params")
    if k == "DataflowBlock" and c["delta"]:
        ctx.feat("feature:block-delta")
    if k == "Custom" and c["desc"]:
        ctx.feat("feature:custom-description")
    if k == "ExtOp":
        ctx.feat("feature:extop")
    for route in ("json", "dict"):
        y = decode(sops.OpType, j, route).root.deserialize()
        j2 = dump_op(y)
        if j2 != j:
            diffs = [key for key in set(j) | set(j2) if j.get(key) != j2.get(key)]
            ctx.disc(None, f"op-reencode[{k}.{'+'.join(sorted(diffs))}]", [k, sorted(diffs)], {d: j.get(d) for d in diffs},
                     {d: j2.get(d) for d in diffs}, stratum=stratum, case=c)
        fa, fb = facts(op), facts(y)
        if fa != fb:
            diffs = sorted(key for key in fa if fa[key] != fb.get(key))
            ctx.disc(None, f"op-derived-facts[{k}]", [k, diffs], {d: fa[d] for d in diffs},
                     {d: fb.get(d) for d in diffs}, stratum=stratum, case=c)
        if k in ("Custom", "ExtOp"):
            ref = opo if k == "Custom" else opo.to_custom_op()
            if not isinstance(y, ops.Custom):
                ctx.disc(None, "extension-op-not-opaque", k, "Custom", repr(y), stratum=stratum, case=c)
                continue
            if k == "ExtOp" and y.description != c["desc"]:
                # (independent of to_custom_op: the description an extension operation has is its definition's)
                ctx.disc(None, "extension-op-attribute", [k, "description", "definition"], c["desc"], y.description,
                         stratum=stratum, case=c)
            for attr in ("extension", "op_name", "signature", "args", "description"):
                if getattr(y, attr) != getattr(ref, attr):
                    ctx.disc(None, "extension-op-attribute", [k, attr], repr(getattr(ref, attr)),
                             repr(getattr(y, attr)), stratum=stratum, case=c)
        elif k == "Const":
            pass  # value attributes are covered by the value stratum (ext constants decode opaquely)
        elif k in ("MakeTuple", "UnpackTuple", "Noop"):
            # core sugar over prelude ops: comes back as an opaque op of the prelude
            if not (isinstance(y, ops.Custom) and y.extension == "prelude" and y.op_name == k):
                ctx.disc(None, "prelude-op-identity", k, f"Custom prelude.{k}", repr(y), stratum=stratum, case=c)
        else:
            if type(y) is not type(opo) and not (k == "TagSugar" and type(y) is ops.Tag):
                ctx.disc(None, "op-class", k, type(opo).__name__, type(y).__name__, stratum=stratum, case=c)
            same = (y == opo) if k != "TagSugar" else (
                y.tag == opo.tag and y.sum_ty == opo.sum_ty and y.num_out == opo.num_out)
            if not same:
                ctx.disc(None, f"op-attributes[{k}]", k, repr(vars(opo)) if hasattr(opo, "__dict__") else repr(opo),
                         repr(vars(y)) if hasattr(y, "__dict__") else repr(y), stratum=stratum, case=c)


# ------------------------------------------------------------------------------------ driver
def run(ctx):
    from vf.gen.types import Gen, depth
    from vf.gen.values import VGen, constable, vdepth

    maxd = ctx.n(3, 4)
    for i in ctx.mine(ctx.n(6000, 250000)):
        r = ctx.rng("type", i)
        g = Gen(r, allow_rowvar=True)
        d = g.ty(r.randint(0, maxd))
        ctx.case("type", d, depth(d) >= 2)
        ctx.guard("type", d, check_type, ctx, d)
    for i in ctx.mine(ctx.n(1500, 40000)):
        r = ctx.rng("pa", i)
        g = Gen(r, type_varg=True)
        p = g.param(3)
        ctx.case("param", p, len(repr(p)) > 12)
        ctx.guard("param", p, check_param, ctx, p)
        a = g.arg_for(p, 2)
        ctx.case("arg", a, len(repr(a)) > 20)
        ctx.guard("arg", a, check_arg, ctx, a)
    for i in ctx.mine(ctx.n(4000, 150000)):
        r = ctx.rng("value", i)
        vg = VGen(r)
        td = vg.const_type(r.randint(0, maxd))
        if not constable(td):
            continue
        vd = vg.value(td, maxd + 1)
        case = [td, vd]
        ctx.case("value", case, vdepth(vd) >= 2)
        ctx.guard("value", case, check_value, ctx, case)
        if vd[0] in ("unitsum", "unit", "true", "false", "tuple", "some", "none", "left", "right"):
            ctx.guard("sugar", ["val", vd], check_sugar, ctx, ["val", vd])
    for i in ctx.mine(ctx.n(1500, 40000)):
        r = ctx.rng("sugar", i)
        g = Gen(r)
        k = r.choice(["unit", "bool", "usum", "tuple", "option", "either"])
        d = {"unit": ["unit"], "bool": ["bool"], "usum": ["usum", r.randint(0, 4)],
             "tuple": ["tuple", g.row(1, 3, in_row=False)], "option": ["option", g.row(1, 2, in_row=False)],
             "either": ["either", g.row(1, 2, in_row=False), g.row(1, 2, in_row=False)]}[k]
        ctx.case("sugar", d, True)
        ctx.guard("sugar", ["ty", d], check_sugar, ctx, ["ty", d])
    for i in ctx.mine(ctx.n(8000, 300000)):
        r = ctx.rng("op", i)
        c = gen_op(r, r.randint(0, 2))
        ctx.case("op:" + c["k"], c, op_nontrivial(c))
        ctx.guard("op", c, check_op, ctx, c)
    try:
        from vf.props import c05_foreign
    except ImportError:
        return
    c05_foreign.run(ctx)


def replay(ctx, rec):
    st, case = rec.get("stratum"), rec.get("case")
    if st == "type":
        check_type(ctx, case)
    elif st == "param":
        check_param(ctx, case)
    elif st == "arg":
        check_arg(ctx, case)
    elif st == "sugar":
        check_sugar(ctx, case)
    elif st == "value":
        check_value(ctx, case)
    elif st == "op":
        check_op(ctx, case)
    else:
        from vf.props import c05_foreign

        c05_foreign.replay(ctx, rec)
