"""C02 — JSON round trip of a HUGR is lossless and a fixed point.

Round-trip differential: d1 = to_json(h); h' = load_json(d1); d2 = to_json(h'); d1 == d2 path-wise;
observe(h) == observe(h') through the public query API (ops by encoded form, hierarchy with child
order, metadata, multiset of links on every port incl. order links); second application is a
fixed point.  Workload: builder programs, mutation histories (holes, index reuse, insert_hugr),
arbitrary JSON metadata, attribute-rich planted nodes."""

from __future__ import annotations

import json

ID = "C02"
META = {
    "level": "exploration",
    "rule": ("case = {program AST?, planted attribute-rich ops?, mutation history?, metadata?}; distinct by JSON; "
             "non-trivial when the HUGR has >= 6 nodes and (an Ext/Dom/order/CF/static edge, a poly call or insert_*) "
             "or the history applied >= 1 delete"),
    "required": ["monitor:repo-test-documents", "monitor:json-fixed-point", "monitor:observe-eq", "monitor:second-roundtrip",
                 "cases:program", "cases:program+history", "cases:history", "cases:attr-rich",
                 "feature:metadata", "feature:holes", "feature:order-link", "feature:index-reuse",
                 "feature:planted-poly-funcdefn", "feature:planted-block-delta", "feature:function-const"],
    "reach": ["hugr.hugr.base:Hugr._to_serial", "hugr.hugr.base:Hugr._from_serial",
              "hugr._serialization.serial_hugr:SerialHugr.load_json"],
    "assumptions": [
        "port counts are not part of the observed structure; link order within a port is compared as a multiset",
        "mutation histories attach links only to ports the operations have (a link on a non-existent port, e.g. an "
        "order link on a Module, has no encoding in the wire format)",
        "metadata values: JSON without NaN/Infinity",
    ],
}


def build(case):
    from hugr import Hugr
    from vf.gen.histories import apply_history
    from vf.gen.types import Builder
    from vf.interp import Interp
    from vf.props.c05 import build_op

    info = {}
    if case.get("doc") is not None:
        # a document captured from the repository's own tests (vf/repo_corpus.py)
        h = Hugr.load_json(json.dumps(case["doc"]))
    elif case.get("prog") is not None:
        it = Interp()
        h = it.run(case["prog"])
        info["interp"] = it
    else:
        h = Hugr()
    for c in case.get("plant", []):
        nodes = list(h)
        parent = nodes[c["at"] % len(nodes)]
        # a fresh Builder per planted op: generated TypeDef names (D0, D1, ...) are per descriptor
        kw_ = {"num_outs": c["num_outs"]} if c.get("num_outs") is not None else {}
        n = h.add_node(build_op(c["op"], Builder()), parent, metadata=c.get("md"), **kw_)
        if c["op"]["k"] in ("FuncDefn", "DFG", "TailLoop", "DataflowBlock", "Case"):
            # give containers an Input/Output pair so that they look like built ones
            from hugr import ops

            isig = h[n].op.inner_signature()
            h.add_node(ops.Input(isig.input), n)
            h.add_node(ops.Output(isig.output), n)
    if case.get("fnconst"):
        # a function-valued constant whose body has `fnconst` operations (serializing the HUGR serializes the body
        # inside: the two serializations must not share anything)
        from hugr import ops, tys, val
        from hugr.build.dfg import Dfg

        body = Dfg(tys.Bool)
        w = body.inputs()[0]
        for _ in range(case["fnconst"]):
            w = body.add_op(ops.Noop(tys.Bool), w)[0]
        body.set_outputs(w)
        h.add_node(ops.Const(val.Function(body.hugr)), h.root)
    hist = case.get("hist") or []
    # every other history is interrupted by serializations (pure queries) after every second step
    turn = [0]

    def queries():
        # pure queries of several kinds, in turn: serialization, rendering, port kinds / types of every node
        turn[0] += 1
        if turn[0] % 3 == 1:
            h.to_json()
        elif turn[0] % 3 == 2:
            h.render_dot().source
        else:
            for n_ in list(h):
                for p_ in (n_.out(0), n_.inp(0), n_.out(-1)):
                    try:
                        h.port_kind(p_)
                        h.port_type(p_)
                    except Exception:  # noqa: BLE001  (a port the operation does not have)
                        pass

    probe = queries if len(json.dumps(hist, default=repr)) % 2 else None
    info["applied"] = apply_history(h, hist, valid_ports_only=True, probe=probe)
    nodes = list(h)
    for (k, key, v) in case.get("md", []):
        h[nodes[k % len(nodes)]].metadata[key] = v
    return h, info


def mechanisms(paths):
    from vf.oracles.observe import generic_path

    return sorted({generic_path(p) for p, _, _ in paths})


def check_case(ctx, case, stratum, again=None):
    from hugr import Hugr
    from vf.oracles.observe import child_before_parent, diff, observe

    if again:
        h, info = again[0], {}
    else:
        h, info = build(case)
    nodes = list(h)
    holes = bool(nodes) and max(n.idx for n in nodes) + 1 != len(nodes)
    if holes:
        ctx.feat("feature:holes")
    if any(h[n].metadata for n in nodes):
        ctx.feat("feature:metadata")
    if any(s.offset == -1 for s, _ in h.links()):
        ctx.feat("feature:order-link")
    cbp = child_before_parent(h)
    unordered = any([c.idx for c in h.children(n)] != sorted(c.idx for c in h.children(n)) for n in nodes)
    if cbp or unordered:
        ctx.feat("feature:index-reuse")
    o1 = observe(h)
    s1 = h.to_json()
    d1 = json.loads(s1)
    # serializing is a pure query: a second serialization gives the same document and the HUGR is as before
    ctx.count("monitor:serialization-is-pure")
    if h.to_json() != s1:
        ctx.disc(None, "second-to_json-differs", "to_json() twice", "same text", "differs", stratum=stratum, case=case)
    for m in mechanisms(diff(o1, observe(h))):
        ctx.disc(None, f"hugr-modified-by-to_json[{m}]", m, "unchanged", "changed", stratum=stratum, case=case)
    try:
        h2 = Hugr.load_json(s1)
    except Exception as e:  # noqa: BLE001
        key = "child-before-parent-after-reuse" if cbp and isinstance(e, (KeyError, IndexError, AssertionError)) else None
        ctx.disc(key, "load_json-raises", type(e).__name__, "load_json(to_json(h)) succeeds",
                 f"{type(e).__name__}: {str(e)[:200]}", stratum=stratum, case=case)
        return info
    ctx.count("monitor:json-fixed-point")
    d2 = json.loads(h2.to_json())
    paths = diff(d1, d2)
    for m in mechanisms(paths):
        ex = [p for p in paths if __import__("vf.oracles.observe", fromlist=["generic_path"]).generic_path(p[0]) == m][0]
        ctx.disc("child-before-parent-after-reuse" if cbp else None, f"json-differs[{m}]", ex[0], ex[1], ex[2],
                 stratum=stratum, case=case)
    ctx.count("monitor:observe-eq")
    o2 = observe(h2)
    paths = diff(o1, o2)
    for m in mechanisms(paths):
        ex = [p for p in paths if __import__("vf.oracles.observe", fromlist=["generic_path"]).generic_path(p[0]) == m][0]
        key = "child-before-parent-after-reuse" if cbp else (
            "child-order-after-index-reuse" if unordered and m.startswith(".nodes[*].children") else None)
        ctx.disc(key, f"observe-differs[{m}]", ex[0], ex[1], ex[2], stratum=stratum, case=case)
    # second application: h'' == h' under both comparisons
    ctx.count("monitor:second-roundtrip")
    try:
        h3 = Hugr.load_json(h2.to_json())
        d3 = json.loads(h3.to_json())
        for m in mechanisms(diff(d2, d3)):
            ctx.disc(None, f"second-roundtrip-json[{m}]", m, "fixed point", "differs", stratum=stratum, case=case)
        for m in mechanisms(diff(o2, observe(h3))):
            ctx.disc(None, f"second-roundtrip-observe[{m}]", m, "fixed point", "differs", stratum=stratum, case=case)
    except Exception as e:  # noqa: BLE001
        ctx.disc(None, "second-roundtrip-raises", type(e).__name__, "succeeds", str(e)[:200],
                 stratum=stratum, case=case)
    info["nodes"] = len(nodes)
    if not again and not cbp and not unordered:
        # the HUGR is changed AFTER it has been serialized (and loaded, observed, serialized again ...): a node added,
        # metadata written, a link added and one removed -- then the whole comparison once more: nothing remembered
        # from the earlier serializations may survive
        from hugr import ops, tys

        ctx.count("monitor:changed-after-serialization")
        extra = h.add_node(ops.Custom("late", tys.FunctionType([tys.Bool], [tys.Bool, tys.Bool]), extension="verif.late"),
                           h.root, metadata={"late": [1, None]})
        h.add_link(extra.out(1), extra.inp(0))
        h.add_order_link(extra, extra)
        h[nodes[len(nodes) // 2]].metadata["changed-after"] = {"serialization": True}
        lks = [(s_, t_) for s_, t_ in h.links() if s_.node.idx != extra.idx]
        if lks:
            h.delete_link(*lks[len(lks) // 2])
        if json.loads(h.to_json()) == d1:
            ctx.disc(None, "serialization-remembered", "to_json() after the HUGR changed", "another document",
                     "the earlier document", stratum=stratum, case=case)
        check_case(ctx, case, stratum, again=(h,))
    return info


def gen_md(r, n=3):
    from vf.gen.prog import ProgGen

    g = ProgGen(r)
    out = []
    for _ in range(r.randint(1, n)):
        md = g.metadata()
        for key, v in md.items():
            out.append([r.randrange(1000), key, v])
    if r.random() < 0.3:
        out.append([0, "root.key", {"nested": [1, 2.5, None, "ü"]}])
    return out


def gen_plant(r, n=3):
    from vf.props.c05 import gen_op

    out = []
    kinds = ["FuncDefn", "DFG", "TailLoop", "DataflowBlock", "Custom", "Const", "AliasDecl", "AliasDefn",
             "Call", "LoadFunc", "FuncDecl", "Tag", "ExtOp", "Conditional", "CFG",
             # operations typed by hand and added through the plain graph API (the builders never see them)
             "MakeTuple", "UnpackTuple", "Noop", "CallIndirect", "LoadConst", "Input", "Output"]
    for _ in range(r.randint(1, n)):
        from vf.props import c05

        want = r.choice(kinds)
        for _ in range(40):
            c = gen_op(r, 1)
            if c["k"] == want:
                break
        else:
            continue
        rec = {"at": r.randrange(1000), "op": c}
        if r.random() < 0.3:
            rec["md"] = {"planted": r.randint(0, 9)}
        out.append(rec)
    return out


def run(ctx):
    from vf.gen.histories import gen_history, gen_history_on
    from vf.gen.prog import gen_program
    from vf.props.c01 import nontrivial

    def feats_of_plant(plant):
        for c in plant:
            o = c["op"]
            if o["k"] == "FuncDefn" and o.get("params"):
                ctx.feat("feature:planted-poly-funcdefn")
            if o["k"] == "DataflowBlock" and o.get("delta"):
                ctx.feat("feature:planted-block-delta")
            if o["k"] == "Const" and "'func'" in repr(o.get("val")):
                ctx.feat("feature:function-const")

    if ctx.shard == 1 % ctx.nshards:
        # the HUGRs of the repository's own tests (hand-written, realistic), optionally followed by a history
        from vf.repo_corpus import documents

        for k, c in enumerate((ctx.guard("repo-doc", None, documents) or [])):
            for variant in range(2):
                case = dict(c)
                if variant:
                    case["hist"] = gen_history_on(ctx.rng("repo-doc", k), 12, max_steps=12)
                ctx.count("monitor:repo-test-documents")
                ctx.guard("repo-doc", case, check_case, ctx, case, "repo-doc")
                ctx.case("repo-doc", case, len(c["doc"]["nodes"]) >= 6)
    n = ctx.n(1500, 50000)
    for i in ctx.mine(n):
        r = ctx.rng("case", i)
        mode = ["program", "program+history", "history", "attr-rich"][i % 4]
        case = {}
        if mode in ("program", "program+history"):
            force = ("rowpoly-call",) if i % 5 == 0 else ()
            case["prog"] = gen_program(r, budget=30, kind="module" if force else None, force=force)
        if mode == "program" and r.random() < 0.5:
            case["md"] = gen_md(r)
        if mode == "program+history":
            case["hist"] = gen_history_on(r, 12, max_steps=15)
            if r.random() < 0.5:
                case["md"] = gen_md(r)
        if mode == "history":
            case["hist"] = gen_history(r, max_steps=30, metadata=True)
            if (i // 4) % 3 == 0:
                # serializations between deletions and index re-use
                from vf.gen.histories import gen_probe_history

                case["hist"] = gen_probe_history(r)
                ctx.feat("feature:serialized-mid-history")
            elif (i // 4) % 3 == 1:
                from vf.gen.histories import gen_sparse_history

                case["hist"] = gen_sparse_history(r)
                ctx.feat("feature:sparse-survivors")
            if r.random() < 0.3:
                case["md"] = gen_md(r)
        if mode == "attr-rich":
            case["plant"] = gen_plant(r, 4)
            if (i // 4) % 25 == 0:
                # quota by construction: a planted constant holding a function value
                from vf.gen.values import VGen

                fv = VGen(r).value(["func", [["bool"], ["int", 3]], [["int", 3], ["bool"], ["bool"]], ["x", "prelude"]], 2)
                case["plant"].append({"at": r.randrange(1000), "op": {"k": "Const", "ty": None, "val": fv}})
            feats_of_plant(case["plant"])
            if r.random() < 0.5:
                case["prog"] = gen_program(r, kind="module", budget=15)
            if r.random() < 0.4:
                case["hist"] = gen_history_on(r, 6, max_steps=10)
            if r.random() < 0.5:
                case["md"] = gen_md(r)
        info = ctx.guard(mode, case, check_case, ctx, case, mode)
        nt = False
        if info:
            nt = info.get("applied", 0) >= 1 and any(s[0].startswith("delete") for s in case.get("hist") or [])
            if case.get("prog") is not None:
                nt = nt or nontrivial(case["prog"], info.get("nodes", 0))
            nt = nt or bool(case.get("plant"))
        ctx.case(mode, case, nt)


def replay(ctx, rec):
    check_case(ctx, rec["case"], rec.get("stratum") or "program")
