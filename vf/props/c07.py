"""C07 — a type is reported copyable only if all of its constituents are.

Reference function `ref_bound` on the generator's descriptor (never on the library's own
objects) vs `type_bound()`; bounds written on the wire for every (nested) extension type;
std containers; StaticArray rejection; TypeBound.join contract."""

from __future__ import annotations

ID = "C07"
META = {
    "level": "exploration",
    "rule": ("case = generated type descriptor (JSON); distinct by JSON; non-trivial when nesting "
             "depth >= 2 or it contains an extension type whose definition has a from-params bound"),
    "required": ["monitor:type_bound", "monitor:reused-type", "monitor:bound-after-empty-resolve", "monitor:wire-bound", "monitor:static-array-reject",
                 "monitor:static-array-accept", "monitor:join", "feature:from-params",
                 "feature:bound-A", "feature:bound-C", "feature:row-variable", "monitor:poly-function-bound"],
    "reach": ["hugr.tys:Sum.type_bound", "hugr.tys:ExtType.type_bound", "hugr.tys:ExtType._to_opaque"],
    "assumptions": [
        "at from-params indices only TypeTypeArg arguments are generated",
        "type depth <= 3 (quick) / 5 (thorough)",
    ],
}


def has_from(d):
    if isinstance(d, list):
        if d and d[0] == "ext" and d[1]["bound"][0] == "from":
            return True
        return any(has_from(x) for x in d)
    if isinstance(d, dict):
        return any(has_from(v) for v in d.values())
    return False


def opaque_bounds(j, out):
    """pre-order list of (extension, id, bound) of every Opaque in a wire JSON value"""
    if isinstance(j, dict):
        if j.get("t") == "Opaque":
            out.append([j.get("extension"), j.get("id"), j.get("bound")])
        for v in j.values():
            opaque_bounds(v, out)
    elif isinstance(j, list):
        for v in j:
            opaque_bounds(v, out)
    return out


def check_type(ctx, d, stratum="type"):
    from vf.gen.types import Builder, ref_bound, wire_ty

    B = Builder()
    t = B.ty(d)
    exp = ref_bound(d)
    ctx.count("monitor:type_bound")
    ctx.feat("feature:bound-" + exp)
    got = t.type_bound().value
    if got != exp:
        ctx.disc(None, "type_bound", d[0], exp, got, stratum=stratum, case=d)
    got2 = t.type_bound().value
    if got2 != got:
        ctx.disc(None, "type_bound-unstable", d[0], got, got2, stratum=stratum, case=d)
    j = t._to_serial_root().model_dump(mode="json")
    ob = opaque_bounds(j, [])
    eb = opaque_bounds(wire_ty(d), [])
    ctx.count("monitor:wire-bound", max(1, len(eb)))
    if ob != eb:
        ctx.disc(None, "wire-bound", "opaque bounds in pre-order", eb, ob, stratum=stratum, case=d)
    if d[0] == "func":
        # function types are copyable, polymorphic ones too
        from hugr import tys as _t

        ctx.count("monitor:poly-function-bound")
        pb = _t.PolyFuncType([_t.TypeTypeParam(_t.TypeBound.Any), _t.BoundedNatParam()], t).type_bound().value
        if pb != "C":
            ctx.disc(None, "type_bound", "PolyFuncType", "C", pb, stratum=stratum, case=d)
    # a type that went through resolution against a registry that knows nothing is still the same type: its bound
    # (reported and written) is the declared / computed one
    from hugr.ext import ExtensionRegistry

    ctx.count("monitor:bound-after-empty-resolve")
    t2 = t.resolve(ExtensionRegistry())
    if t2.type_bound().value != exp:
        ctx.disc(None, "type_bound-after-resolve", d[0], exp, t2.type_bound().value, stratum=stratum, case=d)
    ob2 = opaque_bounds(t2._to_serial_root().model_dump(mode="json"), [])
    if ob2 != eb:
        ctx.disc(None, "wire-bound-after-resolve", "opaque bounds in pre-order", eb, ob2, stratum=stratum, case=d)
    # containers over this element type
    from hugr.std.collections.array import Array
    from hugr.std.collections.list import List
    from hugr.std.collections.static_array import StaticArray

    for name, mk in (("Array", lambda: Array(t, 3)), ("List", lambda: List(t))):
        c = mk()
        if c.type_bound().value != exp:
            ctx.disc(None, "container-bound", name, exp, c.type_bound().value, stratum=stratum, case=d)
        cb = opaque_bounds(c._to_serial_root().model_dump(mode="json"), [])[0][2]
        if cb != exp:
            ctx.disc(None, "container-wire-bound", name, exp, cb, stratum=stratum, case=d)
    # the same containers as plain extension types over the definitions the std extensions were LOADED with (decoded
    # from JSON), through TypeDef.instantiate and through resolution of the opaque form
    import hugr.std.collections.array as _arr
    import hugr.std.collections.list as _lst
    from hugr import tys as _tys
    from hugr.ext import ExtensionRegistry as _Reg

    ctx.count("monitor:loaded-definition-bound")
    ldef, adef = _lst.EXTENSION.get_type("List"), _arr.EXTENSION.get_type("array")
    reg = _Reg()
    reg.add_extension(_lst.EXTENSION)
    plain = [("List.instantiate", ldef.instantiate([t.type_arg()])),
             ("array.instantiate", adef.instantiate([_tys.BoundedNatArg(2), t.type_arg()])),
             ("Opaque(List).resolve", _tys.Opaque("List", _tys.TypeBound(exp), [t.type_arg()],
                                                   "collections.list").resolve(reg))]
    if d[0] == "ext":
        # ... and the generated definition itself after a trip through the extension's JSON form
        from hugr.ext import Extension as _Ext

        back = _Ext.from_json(B.exts[d[1].get("ext", "verif.test")].to_json())
        plain.append(("reloaded definition", back.get_type(d[1]["name"]).instantiate(list(t.args))))
    for name, c in plain:
        if c.type_bound().value != exp:
            ctx.disc(None, "loaded-definition-bound", name, exp, c.type_bound().value, stratum=stratum, case=d)
        cb = opaque_bounds(c._to_serial_root().model_dump(mode="json"), [])[0][2]
        if cb != exp:
            ctx.disc(None, "loaded-definition-wire-bound", name, exp, cb, stratum=stratum, case=d)
    if d[0] == "ext" and d[1]["bound"][0] == "from":
        # an argument that does not fit its parameter: a linear type at a named position whose parameter is declared
        # copyable.  Refusing it is fine; if the type is built, its bound is still the join of what its named
        # arguments ARE (the definition's parameter declaration is no licence to assume)
        from hugr import tys as _t2

        for idx in d[1]["bound"][1]:
            if d[1]["params"][idx] == ["T", "C"] and d[2][idx][0] == "t":
                ctx.count("monitor:ill-fitting-argument")
                args2 = list(t.args)
                args2[idx] = _t2.TypeTypeArg(_t2.Tuple(_t2.Bool, _t2.Qubit))
                try:
                    t_bad = t.type_def.instantiate(args2)
                    got_b = t_bad.type_bound().value
                    wb = opaque_bounds(t_bad._to_serial_root().model_dump(mode="json"), [])[0][2]
                except Exception:  # noqa: BLE001
                    ctx.count("observed:ill-fitting-argument-refused")
                    break
                if got_b != "A" or wb != "A":
                    ctx.disc(None, "type_bound[linear argument at a copyable-declared position]", idx, "A (or a refusal)",
                             [got_b, wb], stratum=stratum, case=d)
                break
    try:
        sa = StaticArray(t)
        res = "accepted"
    except ValueError:
        res = "ValueError"
    want = "ValueError" if exp == "A" else "accepted"
    ctx.count("monitor:static-array-" + ("reject" if want == "ValueError" else "accept"))
    if res != want:
        ctx.disc(None, "static-array-copyability", "StaticArray(T)", want, res, stratum=stratum, case=d)
    elif res == "accepted" and sa.type_bound().value != "C":
        ctx.disc(None, "container-bound", "StaticArray", "C", sa.type_bound().value,
                 stratum=stratum, case=d)


def check_reused(ctx, c):
    """one extension-type object whose arguments are replaced between two uses: the reported and the
    written bound must be those of the arguments it has now (nothing derived may be remembered)"""
    from vf.gen.types import Builder, ref_bound, wire_ty

    B = Builder()
    B.no_share = True     # (this stratum mutates the objects it builds)
    d1, d2 = c["d1"], c["d2"]
    t = B.ty(d1)
    t2 = B.ty(d2)
    ctx.count("monitor:reused-type")
    for step in c["first"]:
        if step == "bound":
            t.type_bound()
        else:
            t._to_serial_root().model_dump(mode="json")
    how = c["how"]
    if how == "rebind":
        t.args = list(t2.args)
    elif how == "slice":
        t.args[:] = t2.args
    else:
        for i, a in enumerate(t2.args):
            t.args[i] = a
    exp = ref_bound(d2)
    got = t.type_bound().value
    if got != exp:
        ctx.disc(None, "reused-type-bound", d2[0], exp, got, stratum="reused", case=c)
    ob = opaque_bounds(t._to_serial_root().model_dump(mode="json"), [])
    eb = opaque_bounds(wire_ty(d2), [])
    if ob != eb:
        ctx.disc(None, "reused-wire-bound", d2[0], eb, ob, stratum="reused", case=c)


def gen_reused(r, g):
    k = r.choice(["ext", "ext", "list", "array"])
    if k == "ext":
        df = g.typedef()
        d1 = ["ext", df, [g.arg_for(p, 1) for p in df["params"]]]
        d2 = ["ext", df, [g.arg_for(p, 1) for p in df["params"]]]
    elif k == "list":
        d1, d2 = ["list", g.ty(1)], ["list", g.ty(1)]
    else:
        n = r.randint(0, 3)
        d1, d2 = ["array", n, g.ty(1)], ["array", n, g.ty(1)]
    return {"d1": d1, "d2": d2, "how": r.choice(["rebind", "slice", "each"]),
            "first": r.choice([["bound"], ["wire"], ["bound", "wire"], ["wire", "wire"], []])}


def check_join(ctx, bs):
    from hugr.tys import TypeBound

    ctx.count("monitor:join")
    vals = [TypeBound.Any if b == "A" else TypeBound.Copyable for b in bs]
    got = TypeBound.join(*vals).value
    exp = "A" if "A" in bs else "C"
    if got != exp:
        ctx.disc(None, "join", bs, exp, got, stratum="join", case=bs)


def run(ctx):
    from vf.gen.types import Gen, depth

    maxd = ctx.n(3, 5)
    for i in ctx.mine(ctx.n(40000, 1500000)):
        r = ctx.rng("type", i)
        g = Gen(r, allow_rowvar=bool(i % 2))      # (row variables inside rows: variables report their declared bound)
        d = g.ty(r.randint(0, maxd))
        if "'rowvar'" in repr(d):
            ctx.feat("feature:row-variable")
        fp = has_from(d)
        if fp:
            ctx.feat("feature:from-params")
        ctx.case("type", d, depth(d) >= 2 or fp)
        ctx.guard("type", d, check_type, ctx, d)
    from vf.gen.types import ref_bound

    for i in ctx.mine(ctx.n(4000, 100000)):
        r = ctx.rng("reused", i)
        c = gen_reused(r, Gen(r, allow_vars=False))
        ctx.case("reused", c, ref_bound(c["d1"]) != ref_bound(c["d2"]) and bool(c["first"]))
        ctx.guard("reused", c, check_reused, ctx, c)
    for i in ctx.mine(ctx.n(2000, 20000)):
        r = ctx.rng("join", i)
        bs = [r.choice("CCA") for _ in range(r.randint(0, 6))]
        ctx.guard("join", bs, check_join, ctx, bs)
        ctx.case("join", bs, len(bs) >= 2)


def replay(ctx, rec):
    if rec.get("stratum") == "join":
        check_join(ctx, rec["case"])
    elif rec.get("stratum") == "reused":
        check_reused(ctx, rec["case"])
    else:
        check_type(ctx, rec["case"])
