"""C20 — rendering draws every node, port and link of the HUGR exactly once.

Output monitor: a parser for the DOT subset graphviz.Digraph.source emits; count / nesting /
endpoint / label oracle against the HUGR's public queries; HUGR snapshot before and after;
structural identity across palettes and name qualification."""

from __future__ import annotations

import re
from collections import Counter

ID = "C20"
META = {
    "level": "exploration",
    "rule": ("case = {HUGR case (program AST, history?, metadata?), render configs}; distinct by JSON; non-trivial as "
             "for C01 (>= 6 nodes and an Ext/Dom/order/CF/static edge, poly call or insert_*)"),
    "required": ["monitor:repo-test-documents", "monitor:render", "monitor:render-default-config", "monitor:renderer-reused", "monitor:nodes", "monitor:clusters", "monitor:edges", "monitor:labels",
                 "monitor:unchanged", "monitor:config-independence", "monitor:cluster-count", "monitor:rerender-after-change", "cases:tiny", "feature:order-edge", "feature:cf-edge",
                 "feature:static-edge", "feature:metadata", "feature:ext-op-name", "monitor:parser-selftest"],
    "reach": ["hugr.hugr.render:DotRenderer.render", "hugr.hugr.render:DotRenderer._viz_node",
              "hugr.hugr.render:DotRenderer._viz_link"],
    "assumptions": [
        "the DOT text is parsed by a harness-side parser for the subset the graphviz package emits and, when Graphviz's "
        "`nop` and `dot` are on PATH (they are in this image), also read by Graphviz itself: `nop` (no layout) for the "
        "graph syntax and `dot -Tcanon` on the node statements alone for the HTML-like labels (2.43's layout engine "
        "fails on some well-formed graphs, so the whole source is not laid out); store_dot is exercised on a sample "
        "with format svg, and a failure of Graphviz's layout on a source that passes both questions is undecided",
        "the spelling of order-port endpoints (out.-1 / in.-1) is taken from links() as is",
        "port cells are those of Hugr.num_in_ports / num_out_ports",
    ],
}

NODE_START = re.compile(r"^(\t+)(\d+) \[label=<$")
NODE_END = re.compile(r"^\s*>((?: \w+=(?:\"[^\"]*\"|\S+))*)\]$")
SUB_START = re.compile(r"^(\t+)subgraph (\S+) \{$")
CLOSE = re.compile(r"^(\t*)\}$")
EDGE = re.compile(r'^\t(\d+):"?([^" ]+)"? -> (\d+):"?([^" ]+)"? \[(.*)\]$')
LABEL = re.compile(r'label=("(?:[^"\\]|\\.)*"|\S+)')
PORT = re.compile(r'PORT="([^"]*)"')
BOLD = re.compile(r"<B>(.*?)</B>", re.S)


class ParseError(Exception):
    pass


def parse_dot(src):
    lines = src.split("\n")
    nodes = []   # (id, cluster stack, label text)
    edges = []   # (src, sport, dst, dport, label)
    clusters = []  # (name, enclosing cluster stack)
    stack = []
    i = 0
    # header: `digraph [name] {`; a quoted name may contain newlines
    i = 0
    if not lines or not lines[0].startswith("digraph"):
        raise ParseError(f"unexpected first line {lines[:1]}")
    while i < len(lines) and not lines[i].endswith(" {") and lines[i] != "digraph {":
        i += 1
    if i >= len(lines):
        raise ParseError("no graph header")
    i += 1
    depth_closed = False
    while i < len(lines):
        ln = lines[i]
        m = NODE_START.match(ln)
        if m:
            body = []
            i += 1
            while i < len(lines) and not NODE_END.match(lines[i]):
                body.append(lines[i])
                i += 1
            if i >= len(lines):
                raise ParseError("unterminated node statement")
            nodes.append((int(m.group(2)), list(stack), "\n".join(body)))
            i += 1
            continue
        m = SUB_START.match(ln)
        if m:
            clusters.append((m.group(2), tuple(stack)))
            stack.append(m.group(2))
            i += 1
            continue
        m = CLOSE.match(ln)
        if m:
            if stack:
                stack.pop()
            else:
                depth_closed = True
            i += 1
            continue
        m = EDGE.match(ln)
        if m:
            lab = LABEL.search(m.group(5))
            label = lab.group(1) if lab else ""
            if label.startswith('"'):
                label = label[1:-1].replace('\\"', '"').replace("\\\\", "\\")
            edges.append((int(m.group(1)), m.group(2), int(m.group(3)), m.group(4), label))
            i += 1
            continue
        if ln.strip() == "" or re.match(r"^\t+\w+=", ln):
            i += 1
            continue
        raise ParseError(f"unrecognised line {i}: {ln[:120]!r}")
    if stack or not depth_closed:
        raise ParseError("unbalanced braces")
    return nodes, edges, clusters


def display_name(op, qualify):
    from hugr.ops import AsExtOp

    if isinstance(op, AsExtOp) and not qualify:
        return op.op_def().name
    return op.name()


_DOT: dict = {}

SYNTACTIC = ("syntax error", "not well-formed", "in label of", "Unknown HTML element", "Illegal", "Bad attribute",
             "Unclosed", "Expected", "invalid")


def gv_tool(name):
    if name not in _DOT:
        import shutil

        _DOT[name] = shutil.which(name)
    return _DOT[name]


def dot_binary():
    return gv_tool("dot") and gv_tool("nop")


def _run(cmd, src):
    import subprocess

    try:
        r = subprocess.run(cmd, input=src.encode(), capture_output=True, timeout=120)
    except (OSError, subprocess.TimeoutExpired):
        return None, []
    return r.returncode, [ln for ln in r.stderr.decode(errors="replace").splitlines() if ln.startswith("Error")]


def graphviz_accepts(src):
    """(accepted?, first error line); None when it cannot be decided.  Two questions are put to Graphviz itself:
    (a) is the source a well-formed graph?  -- `nop`, the parser / pretty-printer, no layout;
    (b) are the HTML-like node labels well-formed?  -- `dot -Tcanon` on the node statements alone (isolated nodes).
    `dot -Tcanon` on the whole source is NOT used: Graphviz 2.43 runs its layout engine for it, and that engine fails
    on some perfectly well-formed graphs ("trouble in init_rank", "in routesplines, illegal values of prev ..."),
    which says nothing about the rendering.  Warnings are not errors; an error of (b) that is not about syntax is
    counted as undecided."""
    rc, err = _run([gv_tool("nop")], src)
    if rc is None:
        return None, "nop did not run"
    if rc != 0 or err:
        return False, (err or [f"nop: exit status {rc}"])[0][:200]
    try:
        nodes, _, _ = parse_dot(src)
    except ParseError:
        return None, "node statements not found"
    reduced = "digraph {\n" + "".join(f"\t{nid} [label=<\n{label}\n> shape=plain]\n" for nid, _, label in nodes) + "}\n"
    rc, err = _run([gv_tool("dot"), "-Tcanon"], reduced)
    if rc is None:
        return None, "dot did not run"
    if rc != 0 or err:
        if any(k in e for e in err for k in SYNTACTIC):
            return False, [e for e in err if any(k in e for k in SYNTACTIC)][0][:200]
        return None, (err or [f"dot: exit status {rc}"])[0][:200]
    return True, ""


_COMPANION: list = []


def companion():
    """a small HUGR with value, constant, function and order edges at low node indices"""
    if not _COMPANION:
        from hugr import ops, tys, val
        from hugr.build import Dfg

        d = Dfg(tys.Qubit, tys.Bool, tys.Tuple(tys.Bool, tys.Qubit))
        q, b, t = d.inputs()
        u = d.add_op(ops.UnpackTuple(), t)
        c = d.load(val.Tuple(val.TRUE, val.FALSE))
        n = d.add_op(ops.Noop(), b)
        d.add_state_order(u, n)
        d.set_outputs(q, n[0], u[0], u[1], c)
        _COMPANION.append(d.hugr)
    return _COMPANION[0]


def _palettes():
    """the shipped palettes plus two a user might write: one whose colours coincide pairwise (edge = node, port border =
    background), one with a single colour for everything -- the structure never depends on colours"""
    from hugr.hugr.render import PALETTE, Palette

    out = dict(PALETTE)
    out["user-pairs"] = Palette(background="white", node="#888888", edge="#888888", dark="black", const="#888888",
                                discard="#888888", node_border="white", port_border="white")
    out["user-one-colour"] = Palette(*(["white"] * 8))
    return out


def check_render(ctx, h, case, stratum, configs):
    PALETTE = _palettes()
    from hugr import tys
    from hugr.hugr.render import RenderConfig
    from vf.oracles.observe import observe

    def bad(kind, locus, exp, obs):
        ctx.disc(None, kind, locus, exp, obs, stratum=stratum, case=case)

    import html

    before = observe(h, plus=True, renumber=False)
    # what has to be drawn is fixed BEFORE anything is rendered (a renderer that changes the HUGR must not be judged
    # against the changed HUGR)
    cells_before = {n.idx: Counter([f"in.{k}" for k in range(h.num_in_ports(n))] +
                                   [f"out.{k}" for k in range(h.num_out_ports(n))]) for n in h}
    parents_before = {n.idx: (h[n].parent.idx if h[n].parent is not None else None) for n in h}
    has_children = {n.idx for n in h if h.children(n)}
    structures = []
    for pal, qual in configs:
        ctx.count("monitor:render")
        try:
            if pal is None:
                # the default configuration (no config object): default palette, unqualified names
                ctx.count("monitor:render-default-config")
                src = h.render_dot().source
                qual = False
            else:
                src = h.render_dot(RenderConfig(PALETTE[pal], qual)).source
                # one renderer object used for HUGR after HUGR must draw each exactly like a fresh one
                from hugr.hugr.render import DotRenderer

                # (self-contained, so that a replay of this case reproduces it: the renderer first draws a fixed
                # companion HUGR whose node indices coincide with the first nodes of any HUGR, then this one)
                rr = DotRenderer(RenderConfig(PALETTE[pal], qual))
                rr.render(companion())
                ctx.count("monitor:renderer-reused")
                src2 = rr.render(h).source
                if src2 != src:
                    import difflib

                    d = [ln for ln in difflib.unified_diff(src.splitlines(), src2.splitlines(), lineterm="", n=0)
                         if not ln.startswith(("---", "+++", "@@"))][:4]
                    bad("renderer-reuse", [pal, qual], "the DOT source a fresh renderer produces", d)
        except Exception as e:  # noqa: BLE001
            bad("render-raises", [pal, qual], "renders", f"{type(e).__name__}: {str(e)[:200]}")
            return
        try:
            nodes, edges, clusters = parse_dot(src)
        except ParseError as e:
            bad("dot-not-parseable", [pal, qual], "DOT subset", str(e))
            return
        if dot_binary():
            ok, why = graphviz_accepts(src)
            if ok is None:
                ctx.count("graphviz-undecided")
            else:
                ctx.count("monitor:graphviz-accepts")
                if not ok:
                    bad("graphviz-rejects", [pal, qual], "Graphviz reads the DOT source", why)
        else:
            ctx.count("graphviz-absent")
        # ---- nodes
        ctx.count("monitor:nodes")
        ids = Counter(n for n, _, _ in nodes)
        want_ids = Counter(n.idx for n in h)
        if ids != want_ids:
            bad("node-statements", [pal, qual], sorted(want_ids.elements()), sorted(ids.elements()))
            return
        struct = {"nodes": {}, "edges": None}
        for nid, stack, label in nodes:
            from hugr import Node

            n = Node(nid)
            op = h[n].op
            name = display_name(op, qual)
            bolds = BOLD.findall(label)
            # the label is HTML-like: the name may be written with character references
            if name not in bolds and name not in [html.unescape(b) for b in bolds]:
                bad("node-name", nid, name, bolds[:3])
            ports = Counter(PORT.findall(label))
            want_ports = cells_before[nid]
            if ports != want_ports:
                bad("port-cells", nid, sorted(want_ports.elements()), sorted(ports.elements()))
            chain = []
            p = parents_before[nid]
            while p is not None:
                chain.append(p)
                p = parents_before[p]
            want_stack = [f"cluster{a}" for a in reversed(chain)] + ([f"cluster{nid}"] if nid in has_children else [])
            ctx.count("monitor:clusters")
            if stack != want_stack:
                bad("cluster-nesting", nid, want_stack, stack)
            if h[n].metadata:
                ctx.feat("feature:metadata")
            from hugr.ops import AsExtOp

            if isinstance(op, AsExtOp):
                ctx.feat("feature:ext-op-name")
            struct["nodes"][nid] = (tuple(stack), tuple(sorted(ports.elements())),
                                    name.split(".")[-1] if isinstance(op, AsExtOp) else name)
        # one cluster per node that has children, no others
        ctx.count("monitor:cluster-count")
        got_cl = Counter(name for name, _ in clusters)
        want_cl = Counter(f"cluster{i}" for i in has_children)
        if got_cl != want_cl:
            bad("cluster-statements", [pal, qual], sorted(want_cl.elements())[:6],
                sorted(((got_cl - want_cl) + (want_cl - got_cl)).elements())[:6])
        # ---- edges
        ctx.count("monitor:edges")
        want_edges = Counter()
        want_labels = {}
        for s, t in h.links():
            key = (s.node.idx, f"out.{s.offset}", t.node.idx, f"in.{t.offset}")
            want_edges[key] += 1
            kind = h.port_kind(s)
            if isinstance(kind, tys.ValueKind):
                want_labels[key] = str(kind.ty)
            else:
                want_labels[key] = ""
                ctx.feat({"OrderKind": "feature:order-edge", "CFKind": "feature:cf-edge"}.get(
                    type(kind).__name__, "feature:static-edge"))
        got_edges = Counter((a, b, c, d) for a, b, c, d, _ in edges)
        if got_edges != want_edges:
            bad("edge-statements", [pal, qual], sorted((want_edges - got_edges).elements())[:4],
                sorted((got_edges - want_edges).elements())[:4])
        ctx.count("monitor:labels")
        for a, b, c, d, lab in edges:
            w = want_labels.get((a, b, c, d))
            if w is not None and lab != w:
                bad("edge-label", [a, b, c, d], w, lab)
        struct["edges"] = sorted(got_edges.items())
        structures.append(((pal, qual), struct))
    ctx.count("monitor:unchanged")
    after = observe(h, plus=True, renumber=False)
    if after != before:
        bad("hugr-modified-by-rendering", "observe+", "unchanged", "changed")
    ctx.count("monitor:config-independence")
    base_cfg, base = structures[0]
    for cfg, st in structures[1:]:
        if st["edges"] != base["edges"] or set(st["nodes"]) != set(base["nodes"]):
            bad("config-dependence", [base_cfg, cfg], "same structure", "edges / node set differ")
            continue
        for nid, (stack, ports, name) in st["nodes"].items():
            bstack, bports, bname = base["nodes"][nid]
            if (stack, ports) != (bstack, bports):
                bad("config-dependence", [base_cfg, cfg, nid], [bstack, bports], [stack, ports])
            elif name != bname:
                a, b = sorted([name, bname], key=len)
                key = "qualified-name-adds-type-args" if b.startswith(a + "<") and b.endswith(">") else None
                ctx.disc(key, "config-dependence[op-name]", [base_cfg, cfg, nid], bname, name,
                         stratum=stratum, case=case)


def check_store(ctx, h, case, stratum):
    """store_dot / DotRenderer.store: the rendering is handed to Graphviz and a file appears"""
    import os
    import tempfile

    from hugr.hugr.render import DotRenderer, Palette, RenderConfig

    if not dot_binary():
        ctx.count("graphviz-absent")
        return
    base = os.environ.get("VERIF_RUN_DIR") or None
    with tempfile.TemporaryDirectory(dir=base) as td:
        for how in ("store_dot", "renderer.store"):
            ctx.count("monitor:store")
            fn = os.path.join(td, how)
            try:
                if how == "store_dot":
                    h.store_dot(fn, format="svg", config=RenderConfig(Palette.named("zx"), True))
                else:
                    DotRenderer().store(h, fn, "svg")
            except Exception as e:  # noqa: BLE001
                import subprocess

                if isinstance(e, subprocess.CalledProcessError) and graphviz_accepts(h.render_dot().source)[0] and \
                        graphviz_accepts(h.render_dot(RenderConfig(Palette.named("zx"), True)).source)[0]:
                    # Graphviz read the source and then failed in its own layout engine (2.43 does on some graphs):
                    # nothing the rendering could have done differently
                    ctx.count("store-undecided:graphviz-layout-failure")
                    continue
                ctx.disc(None, f"store-raises[{how}]", type(e).__name__, "a file is written",
                         f"{type(e).__name__}: {str(e)[-300:]}", stratum=stratum, case=case)
                continue
            out = fn + ".svg"
            if not (os.path.exists(out) and os.path.getsize(out) > 0):
                ctx.disc(None, f"store-no-file[{how}]", how, "a non-empty .svg file", "missing or empty",
                         stratum=stratum, case=case)


def check_rerender(ctx, h, case, stratum):
    """one renderer object, the same HUGR object drawn, changed and drawn again (and the renderer's configuration
    replaced in between): the second drawing is what a fresh renderer draws.  Mutates h -- runs last."""
    from hugr import ops, tys
    from hugr.hugr.render import PALETTE, DotRenderer, RenderConfig

    ctx.count("monitor:rerender-after-change")
    # the HUGR's own entry point, asked twice with an equal configuration and an edit in between that changes neither
    # the number of nodes nor the number of links (metadata written, one wire moved to another port)
    cfg0 = RenderConfig(PALETTE["zx"], True)
    h.render_dot(cfg0)
    h[list(h)[-1]].metadata["edited-between-two-renderings"] = "<&>"
    lks = [(s_, t_) for s_, t_ in h.links() if s_.offset >= 0 and t_.offset >= 0]
    if len(lks) >= 2 and lks[0][0] != lks[1][0]:
        # two links exchange their targets (only if that keeps every link on ports of the same kind and type)
        (s1, t1), (s2, t2) = lks[0], lks[1]
        try:
            same = h.port_kind(s1) == h.port_kind(s2)
        except Exception:  # noqa: BLE001
            same = False
        if same:
            h.delete_link(s1, t1)
            h.delete_link(s2, t2)
            h.add_link(s1, t2)
            h.add_link(s2, t1)
    if h.render_dot(RenderConfig(PALETTE["zx"], True)).source != DotRenderer(cfg0).render(h).source:
        ctx.disc(None, "stale-render-after-change", "Hugr.render_dot twice", "the DOT source a fresh renderer produces",
                 "differs", stratum=stratum, case=case)
    rr = DotRenderer(RenderConfig(PALETTE["default"], False))
    rr.render(h)
    nodes = list(h)
    n = h.add_node(ops.Custom("late", tys.FunctionType([tys.Bool], [tys.Bool]), extension="verif.late"),
                   h.root, metadata={"late": 1})
    h.add_link(n.out(0), n.inp(0))
    h.add_order_link(n, n)
    h[nodes[len(nodes) // 2]].metadata["changed"] = "yes"
    for cfg in (RenderConfig(PALETTE["default"], False), RenderConfig(PALETTE["nb"], True)):
        rr.config = cfg
        if rr.render(h).source != DotRenderer(cfg).render(h).source:
            ctx.disc(None, "stale-render-after-change", [cfg.qualify_op_name], "the DOT source a fresh renderer produces",
                     "differs", stratum=stratum, case=case)


def build_tiny(k):
    from hugr import Hugr, ops, tys
    from hugr.build import Dfg

    if k == 0:
        return Hugr()                                   # a module root and nothing else
    if k == 1:
        return Hugr(ops.DFG([tys.Bool], [tys.Bool]))    # a dataflow root without children
    if k == 2:
        d = Dfg(tys.Bool)                               # a container node that has no children
        d.hugr.add_node(ops.DFG([], []), d.parent_node)
        d.set_outputs(*d.inputs())
        return d.hugr
    if k == 3:
        h = Hugr()
        h.add_node(ops.FuncDecl("f<&>", tys.PolyFuncType([], tys.FunctionType.empty())), h.root)
        return h
    if k == 4:
        return Hugr(ops.CFG([], []))
    # a root whose 'name' metadata looks like an HTML string (graph names are identifiers, not labels)
    d = Dfg(tys.Bool)
    d.set_outputs(*d.inputs())
    d.hugr[d.hugr.root].metadata["name"] = ["<b>&amp; \"q\" </TD>", "<name>", "<>"][k % 3]
    return d.hugr


def selftest(ctx):
    good = 'digraph {\n\tbgcolor=white\n\tsubgraph cluster0 {\n\t\t1 [label=<\n<B>X</B> PORT="out.0"\n    > shape=plain]\n' \
           '\t\t0 [label=<\n<B>R</B>\n    > shape=plain]\n\t\tcolor=red\n\t}\n\t1:"out.0" -> 1:"in.-1" [label="a b" color=x]\n}\n'
    try:
        n, e, cl = parse_dot(good)
        ok = ([x[0] for x in n] == [1, 0] and n[0][1] == ["cluster0"] and e == [(1, "out.0", 1, "in.-1", "a b")]
              and cl == [("cluster0", ())])
        try:
            parse_dot(good.replace("\t}\n\t1:", "\t1:"))
            ok = False
        except ParseError:
            pass
    except ParseError:
        ok = False
    if ok:
        ctx.count("monitor:parser-selftest")


def run(ctx):
    from vf.gen.histories import gen_history_on
    from vf.gen.prog import gen_program
    from vf.props import c02
    from vf.props.c01 import nontrivial

    if ctx.shard == 0:
        selftest(ctx)
    allcfg = [(p, q) for p in ("default", "nb", "zx") for q in (False, True)]
    if ctx.shard == 1 % ctx.nshards:
        from vf.repo_corpus import documents

        for c in (ctx.guard("repo-doc", None, documents) or []):
            case = {**c, "configs": [list(x) for x in allcfg] + [[None, False]]}

            def go(case=case):
                h, _ = c02.build(case)
                check_render(ctx, h, case, "render", [tuple(x) for x in case["configs"]])

            ctx.count("monitor:repo-test-documents")
            ctx.guard("render", case, go)
            ctx.case("render", case, len(c["doc"]["nodes"]) >= 6)
    for k in ctx.mine(8):
        case = {"tiny": k, "configs": [list(x) for x in allcfg] + [[None, False]], "store": True, "rerender": True}

        def go_tiny(case=case):
            h = build_tiny(case["tiny"])
            check_render(ctx, h, case, "tiny", [tuple(c) for c in case["configs"]])
            check_store(ctx, h, case, "tiny")
            check_rerender(ctx, h, case, "tiny")

        ctx.guard("tiny", case, go_tiny)
        ctx.case("tiny", case, False)
    for i in ctx.mine(ctx.n(800, 25000)):
        r = ctx.rng("render", i)
        case = {"prog": gen_program(r, budget=25)}
        if r.random() < 0.5:
            case["md"] = c02.gen_md(r)
        if r.random() < 0.3:
            case["hist"] = [["add_order_link", r.randrange(40), r.randrange(40)] for _ in range(6)]
        if r.random() < 0.15:
            case["hist"] = (case.get("hist") or []) + gen_history_on(r, 10, max_steps=8)
        cfgs = allcfg if not ctx.quick or i % 8 == 0 else [allcfg[0], r.choice(allcfg[1:])]
        case["configs"] = [list(c) for c in cfgs] + ([[None, False]] if i % 3 == 0 else [])
        if i % 4 == 1:
            case["configs"].append([["user-pairs", "user-one-colour"][(i // 4) % 2], bool((i // 8) % 2)])
            ctx.feat("feature:user-written-palette")
        if i % 10 == 5:
            case["store"] = True
        if i % 4 == 1:
            case["rerender"] = True

        def go():
            h, info = c02.build(case)
            nn = len(h)
            check_render(ctx, h, case, "render", [tuple(c) for c in case["configs"]])
            if case.get("store"):
                check_store(ctx, h, case, "render")
            if case.get("rerender"):
                check_rerender(ctx, h, case, "render")
            return nn

        nn = ctx.guard("render", case, go)
        ctx.case("render", case, nn is not None and nontrivial(case["prog"], nn))


def replay(ctx, rec):
    from vf.props import c02

    case = rec["case"]
    stratum = rec.get("stratum") or "render"
    h = build_tiny(case["tiny"]) if "tiny" in case else c02.build(case)[0]
    check_render(ctx, h, case, stratum, [tuple(c) for c in case["configs"]])
    if case.get("store"):
        check_store(ctx, h, case, stratum)
    if case.get("rerender"):
        check_rerender(ctx, h, case, stratum)
