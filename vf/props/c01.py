"""C01 — builder-constructed HUGRs satisfy the specification's validity rules.

Workload: generated well-formed builder programs (vf/gen/prog.py) interpreted against the real
builders + the repository's own builder tests run through a `HUGR_BIN` shim.  Oracle: the
JSON-level validator (vf/oracles/validator.py), an independent re-implementation of the rules
C01 lists.  A negative self-test shows each rule of the validator can fire."""

from __future__ import annotations

import copy
import json
import os
import subprocess
import sys

ID = "C01"
RULES = ["V-ROOT", "V-CHILD", "V-FIRST", "V-SECOND", "V-IOROW", "V-PORTS", "V-KIND", "V-CONNECT",
         "V-DAG", "V-EXT", "V-DOM", "V-CFEDGE", "V-CONST", "V-CALL", "V-VARS", "V-EXTOP",
         "V-INTERIOR", "V-NOREL", "V-PARENT", "V-OP", "V-EDGE-NODE"]
FEATS = ["ext-edge", "dom-edge", "static-ext-edge", "explicit-order-edge", "partial-multi-output",
         "conditional", "cond-3+cases", "cond-linear", "tail-loop", "tail-loop-rest", "cfg-diamond",
         "cfg-loop", "cfg-early", "cfg-asymmetric-branch", "cfg-3-way-branch", "cfg-selfloop", "poly-call", "poly-call-arity-change",
         "mode-insert", "recursive-call", "const", "depth-3", "nested-funcdefn", "load-function",
         "call-indirect", "metadata", "shared-partial-op"]
META = {
    "level": "exploration",
    "rule": ("case = builder program AST (JSON); distinct by JSON; non-trivial when the HUGR has >= 6 nodes and "
             "the program uses >= 1 of {Ext edge, Dom edge, explicit order edge, CF edge, static Ext edge, "
             "poly call, insert_*}"),
    "required": ["monitor:validator", "monitor:validator-selftest", "monitor:package-route",
                 "monitor:repo-tests-through-shim"] + [f"root:{k}" for k in
                                                       ("module", "dfg", "func", "cfg", "cond", "loop", "tracked")]
    + FEATS + [f"selftest:{r}" for r in RULES],
    "reach": ["hugr.build.dfg:DfBase._wire_up_port", "hugr.build.dfg:_ancestral_sibling",
              "hugr.build.cfg:Block._wire_up_port", "hugr.build.dfg:DfBase.set_outputs",
              "hugr.build.cond_loop:Conditional._update_outputs", "hugr.build.cfg:Cfg.branch_exit",
              "hugr.hugr.base:Hugr._to_serial", "hugr.hugr.base:Hugr._constrain_offset"],
    "assumptions": [
        "validity is decided by vf/oracles/validator.py, a re-implementation of the enumerated rules written "
        "from hugr-core's validate.rs / ops/validate.rs (the reference binary cannot be built offline)",
        "extension-requirement (runtime_reqs) inference is not checked; unresolved opaque ops are not rejected",
        "programs: depth <= 3/5, <= 40/120 statements",
    ],
    "watchdog_s": {"quick": 900, "thorough": 5400},
}


def nontrivial(p, nnodes):
    f = p["features"]
    return nnodes >= 6 and any(f.get(k) for k in (
        "ext-edge", "dom-edge", "explicit-order-edge", "cfg", "static-ext-edge", "poly-call", "mode-insert"))


def run_program(ctx, p, stratum="program", hook=None):
    """Interpret, serialize, validate; returns (hugr, interp, doc) or None."""
    from vf.interp import Interp
    from vf.oracles import validator
    from vf.oracles.extops import check_ext

    it = Interp(hook=hook)
    h = it.run(p)
    doc = json.loads(h.to_json())
    F = validator.validate(doc, check_ext)
    ctx.count("monitor:validator")
    ctx.count("monitor:validator-nodes", len(doc["nodes"]))
    seen = set()
    for x in F:
        if x["rule"] in seen:
            continue
        seen.add(x["rule"])
        ctx.disc(None, x["rule"], {"node": x["node"], "op": doc["nodes"][x["node"]]["op"]
                                   if isinstance(x["node"], int) and x["node"] < len(doc["nodes"]) else None},
                 "valid under " + x["rule"], x["detail"], stratum=stratum, case=p)
    return h, it, doc


def check_program(ctx, p, stratum="program"):
    from hugr.package import Package

    res = run_program(ctx, p, stratum)
    h, it, doc = res
    ctx.count("root:" + p["kind"])
    for k, v in p["features"].items():
        ctx.feat(k, 1)
    # cross-cutting C16: every handle knows the number of outputs the AST dictates
    from hugr import OutPort

    for what, hd, n in it.handles:
        if n is None:
            continue
        ctx.count("cross:C16-handle")
        try:
            got = list(hd)
        except Exception as e:  # noqa: BLE001
            got = f"{type(e).__name__}: {e}"
        want = [OutPort(hd.to_node(), i) for i in range(n)]
        if got != want:
            ctx.disc(None, "handle-outputs", what, n, repr(got), stratum=stratum, case=p, prop="C16")
    # the package route must emit the same module document
    if p["kind"] == "module" and ctx.counters.get("monitor:validator", 0) % 5 == 0:
        ctx.count("monitor:package-route")
        raw = Package([h]).to_bytes()
        pj = json.loads(raw[10:])
        d2 = pj["modules"][0]
        d1 = dict(doc)
        d1.pop("encoder", None)
        d2 = dict(d2)
        d2.pop("encoder", None)
        if d1 != d2:
            ctx.disc(None, "package-route-differs", "modules[0]", "same document as to_json()",
                     "different", stratum=stratum, case=p)
    return len(doc["nodes"])


# ------------------------------------------------------------------------------------ tracked builder
def gen_tracked(r):
    """script for a TrackedDfg root that keeps the linearity discipline: every qubit is tracked, ops take
    tracked indices (and sometimes explicit copyable wires placed *before* an index), outputs are the
    tracked wires"""
    width = r.randint(1, 5)
    tys_ = [r.choice("qqb") for _ in range(width)]
    steps = []
    tracked = list(tys_)          # type at each index
    for _ in range(r.randint(2, 10)):
        qs = [i for i, t in enumerate(tracked) if t == "q"]
        bs = [i for i, t in enumerate(tracked) if t == "b"]
        k = r.choice(["H", "CX", "Measure", "Not", "SwapW", "SwapI", "CCX", "Fan3"])
        if k == "H" and qs:
            steps.append(["H", [r.choice(qs)]])
        elif k == "CX" and len(qs) >= 2:
            steps.append(["CX", r.sample(qs, 2)])
        elif k == "CCX" and len(qs) >= 3:
            steps.append(["CCX", r.sample(qs, 3)])
        elif k == "Measure" and qs:
            steps.append(["Measure", [r.choice(qs)]])          # out(1): Bool, left unused (copyable)
        elif k == "Not" and bs:
            steps.append(["Not", [r.choice(bs)]])
        elif k == "Fan3" and bs:
            steps.append(["Fan3", [r.choice(bs)]])
        elif k == "SwapI" and qs and bs:
            b, q = r.choice(bs), r.choice(qs)
            steps.append(["Swap", [b, q]])                     # [Bool, Q] -> [Q, Bool]: the indices swap types
            tracked[b], tracked[q] = "q", "b"
        elif k == "SwapW" and qs and bs:
            # explicit Bool wire (current wire of a tracked Bool index) before a tracked qubit index:
            # index q is rebound to output 1 (a Bool); output 0 (the qubit) is tracked anew
            b, q = r.choice(bs), r.choice(qs)
            steps.append(["SwapWire", [b, q]])
            tracked[q] = "b"
            tracked.append("q")
    return {"tys": tys_, "steps": steps}


def check_tracked(ctx, sc, stratum="tracked"):
    from hugr import tys
    from hugr.build import TrackedDfg
    from hugr.std.logic import Not
    from vf import hx
    from vf.oracles import validator
    from vf.oracles.extops import check_ext

    T = {"q": tys.Qubit, "b": tys.Bool}
    if len(sc["steps"]) % 2:
        td = TrackedDfg(*[T[t] for t in sc["tys"]], track_inputs=True)
    else:
        # the default construction; the inputs are tracked afterwards (several such builders in one process must not
        # share anything)
        ctx.feat("feature:tracked-inputs-tracked-later")
        td = TrackedDfg(*[T[t] for t in sc["tys"]])
        td.track_inputs()
    for name, args in sc["steps"]:
        if name == "SwapWire":
            b, q = args
            n = td.add(hx.ext_op("Swap")(td.tracked_wire(b), q))
            td.track_wire(n.out(0))
        elif name == "Not":
            td.add(Not(*args))
        else:
            td.add(hx.ext_op(name)(*args))
    td.set_tracked_outputs()
    doc = json.loads(td.hugr.to_json())
    ctx.count("monitor:validator")
    ctx.count("root:tracked")
    seen = set()
    for x in validator.validate(doc, check_ext):
        if x["rule"] not in seen:
            seen.add(x["rule"])
            ctx.disc(None, x["rule"], {"node": x["node"]}, "valid under " + x["rule"], x["detail"],
                     stratum=stratum, case=sc)
    return len(doc["nodes"])


# ------------------------------------------------------------------------------------ self-test
def _mutations(doc):
    """(rule expected to fire, mutated document) pairs derived from one valid document."""
    from vf.oracles import wire

    out = []
    nodes, edges = doc["nodes"], doc["edges"]

    def clone():
        return copy.deepcopy(doc)

    Q = {"t": "Q"}
    ports = [wire.op_ports(n) for n in nodes]
    for i, n in enumerate(nodes):
        if n["op"] == "Input" and nodes[n["parent"]]["op"] in ("DFG", "FuncDefn", "Case", "TailLoop"):
            d = clone()
            d["nodes"][i]["types"] = [*n["types"], Q]
            out.append(("V-IOROW", d))
            d = clone()
            d["nodes"][i] = {"parent": n["parent"], "op": "Output", "types": n["types"]}
            out.append(("V-FIRST", d))
            break
    for i, n in enumerate(nodes):
        if n["op"] == "Output":
            d = clone()
            d["nodes"][i] = {"parent": n["parent"], "op": "Input", "types": n["types"]}
            out.append(("V-SECOND", d))
            break
    for k, e in enumerate(edges):
        (s, so), (t, to) = e
        if so is None or to is None:
            continue
        ks = wire.port_kind(ports[s], "out", so)
        if isinstance(ks, tuple) and ks[0] == "value":
            d = clone()
            d["edges"][k] = [[s, 99], [t, to]]
            out.append(("V-PORTS", d))
            d = clone()
            del d["edges"][k]
            out.append(("V-CONNECT", d))
            d = clone()
            d["edges"].append([[s, so], [0, 0]])
            out.append(("V-ROOT", d))
            break
    for i, n in enumerate(nodes):
        if n["op"] == "LoadConstant":
            d = clone()
            d["nodes"][i]["datatype"] = Q
            out.append(("V-KIND", d))
            break
    # cycle through order ports between two sibling dataflow nodes joined by a value edge
    for (s, so), (t, to) in edges:
        if so is None or to is None or nodes[s]["parent"] != nodes[t]["parent"]:
            continue
        if ports[s]["other_in"] == "order" and ports[t]["other_out"] == "order" and s != t:
            d = clone()
            d["edges"].append([[t, wire.other_index(ports[t], "out")], [s, wire.other_index(ports[s], "in")]])
            out.append(("V-DAG", d))
            break
    # drop the order edge that accompanies an Ext value edge
    for k, ((s, so), (t, to)) in enumerate(edges):
        if so is None:
            continue
        if ports[s]["other_out"] == "order" and so == wire.other_index(ports[s], "out") \
                and nodes[s]["parent"] == nodes[t]["parent"]:
            # is there a value edge from s into a descendant of t?
            desc = {t}
            changed = True
            while changed:
                changed = False
                for j, n in enumerate(nodes):
                    if n["parent"] in desc and j not in desc:
                        desc.add(j)
                        changed = True
            if any(a == s and b in desc and b != t and ao != so for (a, ao), (b, bo) in edges):
                d = clone()
                del d["edges"][k]
                out.append(("V-EXT", d))
                break
    for i, n in enumerate(nodes):
        if n["op"] == "Extension" and i != 0:
            for j, m in enumerate(nodes):
                if j != i and m["op"] == "Extension" and m["parent"] == n["parent"]:
                    d = clone()
                    d["nodes"][j]["parent"] = i
                    out.append(("V-CHILD", d))
                    break
            break
    for i, n in enumerate(nodes):
        if n["op"] == "ExitBlock":
            d = clone()
            d["nodes"][i]["cfg_outputs"] = [*n["cfg_outputs"], Q]
            out.append(("V-CFEDGE", d))
            break
    for i, n in enumerate(nodes):
        if n["op"] == "Const" and n["v"]["v"] == "Sum":
            d = clone()
            d["nodes"][i]["v"]["tag"] = 77
            out.append(("V-CONST", d))
            break
    for i, n in enumerate(nodes):
        if n["op"] == "Call":
            d = clone()
            d["nodes"][i]["instantiation"]["output"] = [*n["instantiation"]["output"], Q]
            out.append(("V-CALL", d))
            break
    for i, n in enumerate(nodes):
        if n["op"] == "FuncDefn" and n["signature"]["params"]:
            d = clone()
            d["nodes"][i]["signature"]["params"] = []
            out.append(("V-VARS", d))
            break
    for i, n in enumerate(nodes):
        if n["op"] == "Extension" and n["extension"] == "verif.test" and n["name"] == "H":
            d = clone()
            d["nodes"][i]["signature"]["output"] = []
            out.append(("V-EXTOP", d))
            break
    # an Input / Output that is not in the first two positions of a dataflow container
    for i, n in enumerate(nodes):
        if n["op"] == "Input" and nodes[n["parent"]]["op"] in ("DFG", "FuncDefn", "Case", "TailLoop"):
            d = clone()
            d["nodes"].append({"parent": n["parent"], "op": "Input", "types": []})
            out.append(("V-INTERIOR", d))
            break
    # an edge between two nodes that are unrelated in the hierarchy: from a region nested at least two levels
    # inside one module-level function into the body of another module-level function
    def chain(i):
        c = []
        while nodes[i]["parent"] != i:
            i = nodes[i]["parent"]
            c.append(i)
        return c

    done = False
    for i, n in enumerate(nodes):
        if done or n["op"] != "Input" or not n["types"]:
            continue
        c = chain(i)
        if len(c) < 4 or nodes[c[-1]]["op"] != "Module" or nodes[c[-2]]["op"] != "FuncDefn":
            continue
        for j, m in enumerate(nodes):
            if m["op"] == "Output" and nodes[m["parent"]]["op"] == "FuncDefn" and m["parent"] != c[-2] \
                    and nodes[m["parent"]]["parent"] == c[-1] and m["types"]:
                d = clone()
                d["edges"].append([[i, 0], [j, 0]])
                out.append(("V-NOREL", d))
                done = True
                break
    # hierarchy: a node that is its own parent / a parent index out of range
    if len(nodes) > 2:
        d = clone()
        d["nodes"][len(nodes) - 1]["parent"] = len(nodes) - 1
        out.append(("V-PARENT", d))
        d = clone()
        d["nodes"][len(nodes) - 1]["parent"] = len(nodes) + 5
        out.append(("V-PARENT", d))
    # an operation whose attributes cannot be read / an edge naming a node that does not exist
    for i, n in enumerate(nodes):
        if n["op"] == "Input":
            d = clone()
            del d["nodes"][i]["types"]
            out.append(("V-OP", d))
            break
    if edges:
        d = clone()
        d["edges"].append([[len(nodes) + 3, 0], [0, 0]])
        out.append(("V-EDGE-NODE", d))
    return out


DOM_DOC = None


def dom_selftest_doc():
    """Diamond CFG in which a value defined in one arm is used in the join block: the arm does not
    dominate the join -> V-DOM."""
    B = {"t": "Sum", "s": "Unit", "size": 2}
    U = {"t": "Sum", "s": "Unit", "size": 1}
    nodes = [
        {"parent": 0, "op": "CFG", "signature": {"input": [B], "output": [B], "runtime_reqs": []}},
        {"parent": 0, "op": "DataflowBlock", "inputs": [B], "other_outputs": [], "sum_rows": [[], []], "extension_delta": []},
        {"parent": 0, "op": "ExitBlock", "cfg_outputs": [B]},
        {"parent": 1, "op": "Input", "types": [B]},
        {"parent": 1, "op": "Output", "types": [B]},
        {"parent": 0, "op": "DataflowBlock", "inputs": [], "other_outputs": [], "sum_rows": [[]], "extension_delta": []},
        {"parent": 5, "op": "Input", "types": []},
        {"parent": 5, "op": "Output", "types": [U]},
        {"parent": 5, "op": "Const", "v": {"v": "Sum", "tag": 0, "typ": U, "vs": []}},
        {"parent": 5, "op": "LoadConstant", "datatype": U},
        {"parent": 0, "op": "DataflowBlock", "inputs": [], "other_outputs": [], "sum_rows": [[]], "extension_delta": []},
        {"parent": 10, "op": "Input", "types": []},
        {"parent": 10, "op": "Output", "types": [U]},
        {"parent": 10, "op": "Const", "v": {"v": "Sum", "tag": 0, "typ": U, "vs": []}},
        {"parent": 10, "op": "LoadConstant", "datatype": U},
        {"parent": 0, "op": "DataflowBlock", "inputs": [], "other_outputs": [B], "sum_rows": [[]], "extension_delta": []},
        {"parent": 15, "op": "Input", "types": []},
        {"parent": 15, "op": "Output", "types": [U, B]},
        {"parent": 5, "op": "Const", "v": {"v": "Sum", "tag": 1, "typ": B, "vs": []}},
        {"parent": 5, "op": "LoadConstant", "datatype": B},
    ]
    edges = [
        [[3, 0], [4, 0]], [[1, 0], [5, 0]], [[1, 1], [10, 0]],
        [[8, 0], [9, 0]], [[9, 0], [7, 0]], [[5, 0], [15, 0]],
        [[13, 0], [14, 0]], [[14, 0], [12, 0]], [[10, 0], [15, 0]],
        [[18, 0], [19, 0]],
        [[19, 0], [17, 1]],   # value from arm b1 used in join block b3: not dominated
        [[9, 0], [17, 0]],    # ditto for the branch value
        [[15, 0], [2, 0]],
    ]
    return {"version": "live", "nodes": nodes, "edges": edges, "metadata": None, "encoder": "selftest"}


def selftest(ctx):
    """Each rule must fire on a surgical edit of a valid document, and not fire before the edit."""
    from vf.gen.prog import gen_program
    from vf.interp import Interp
    from vf.oracles import validator
    from vf.oracles.extops import check_ext

    fired: set[str] = set()
    for i in range(600):
        if set(RULES) - {"V-DOM"} <= fired:
            break
        r = ctx.rng("selftest", i)
        p = gen_program(r, kind="module" if i % 2 else None)
        try:
            doc = json.loads(Interp().run(p).to_json())
        except Exception:  # noqa: BLE001
            continue
        if validator.validate(doc, check_ext):
            continue  # only start from documents the validator accepts
        for rule, mdoc in _mutations(doc):
            if rule in fired:
                continue
            got = {x["rule"] for x in validator.validate(mdoc, check_ext)}
            if rule in got:
                fired.add(rule)
    got = {x["rule"] for x in validator.validate(dom_selftest_doc(), check_ext)}
    if "V-DOM" in got:
        fired.add("V-DOM")
    ctx.extra["selftest_dom_doc_rules"] = sorted(got)
    for rule in fired:
        ctx.count(f"selftest:{rule}")
    ctx.count("monitor:validator-selftest")


# ------------------------------------------------------------------------------------ repo tests via shim
def repo_tests(ctx):
    from vf import env

    logdir = os.path.join(os.environ.get("PYTHONPYCACHEPREFIX", "/var/tmp"), "..", "shimlog")
    logdir = os.path.abspath(logdir)
    os.makedirs(logdir, exist_ok=True)
    e = dict(os.environ)
    e["HUGR_BIN"] = str(env.VERIF / "tools" / "hugr-validate-shim")
    e["VERIF_SHIM_LOG"] = logdir
    e["PYTHONPATH"] = os.pathsep.join([str(env.SRC), str(env.VERIF / "tools"), str(env.VERIF), str(env.DEPS)])
    tests = env.REPO / "hugr-py" / "tests"
    files = [str(tests / f) for f in ("test_hugr_build.py", "test_cfg.py", "test_cond_loop.py",
                                      "test_tracked_dfg.py", "test_val.py", "test_package.py",
                                      "test_custom.py") if (tests / f).exists()]
    proc = subprocess.run(
        [sys.executable, "-B", "-m", "pytest", "-q", "-x", "--no-header", "-p", "no:cacheprovider",
         "-p", "pytest_snapshot_stub", "--continue-on-collection-errors", "-o", "addopts=", *files],
        cwd=str(env.REPO / "hugr-py"), env=e, capture_output=True, text=True, timeout=600)
    n = 0
    for fn in sorted(os.listdir(logdir)):
        rec = json.load(open(os.path.join(logdir, fn)))
        n += 1
        ctx.count("monitor:repo-tests-through-shim")
        ctx.count("monitor:validator-nodes", rec.get("nodes", 0))
        seen = set()
        for x in rec["findings"]:
            if x["rule"] in seen:
                continue
            seen.add(x["rule"])
            ctx.disc(None, x["rule"], {"test": rec["test"], "node": x["node"]}, "valid under " + x["rule"],
                     x["detail"], stratum="repo-test", case={"test": rec["test"], "doc": rec.get("doc")})
    ctx.extra["repo_tests_summary"] = proc.stdout.strip().splitlines()[-1:] if proc.stdout else []
    ctx.extra["repo_test_documents_validated"] = n


def run(ctx):
    from vf.gen.prog import gen_program

    if ctx.shard == 0:
        ctx.guard("selftest", None, selftest, ctx)
    if ctx.shard == 1 % ctx.nshards:
        ctx.guard("repo-test", None, repo_tests, ctx)
    for i in ctx.mine(ctx.n(300, 10000)):
        r = ctx.rng("tracked", i)
        sc = gen_tracked(r)
        nn = ctx.guard("tracked", sc, check_tracked, ctx, sc)
        ctx.case("tracked", sc, nn is not None and nn >= 6 and any(s_[0] == "SwapWire" for s_ in sc["steps"]))
    n = ctx.n(1500, 40000)
    for i in ctx.mine(n):
        r = ctx.rng("program", i)
        big = not ctx.quick and i % 4 == 0
        force = ("rowpoly-call",) if i % 8 == 0 else ()
        p = gen_program(r, max_depth=5 if big else 3, budget=120 if big else 40,
                        kind="module" if force else None, force=force)
        nn = ctx.guard("program", p, check_program, ctx, p)
        ctx.case("program", p, nn is not None and nontrivial(p, nn))


def replay(ctx, rec):
    case = rec.get("case")
    if rec.get("stratum") == "tracked":
        check_tracked(ctx, case)
        return
    if rec.get("stratum") == "repo-test":
        from vf.oracles import validator
        from vf.oracles.extops import check_ext

        for d in (case or {}).get("doc") or []:
            for x in validator.validate(d, check_ext):
                ctx.disc(None, x["rule"], x["node"], "valid", x["detail"], stratum="repo-test", case=case)
    else:
        check_program(ctx, case)
