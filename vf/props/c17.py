"""C17 — the published JSON schema and the Python codec accept the same documents.

Oracle 1 (deciding): run the repository's own scripts/generate_schema.py in a fresh process on
the working tree and compare the four emitted schema files with the four published ones as JSON
values, after the one normalisation that is neutral in JSON Schema (`additionalProperties: true`
== absent).  Version strings of the models == file-name suffixes.  Oracle 2 (supporting):
acceptance agreement jsonschema(published) vs pydantic(model_validate_json) on a corpus of emitted
documents and mutations from operator classes on which the two formalisms coincide."""

from __future__ import annotations

import copy
import json
import os
import subprocess
import sys

ID = "C17"
FILES = ["hugr_schema_live.json", "hugr_schema_strict_live.json", "testing_hugr_schema_live.json",
         "testing_hugr_schema_strict_live.json"]
META = {
    "level": "exploration",
    "rule": ("schema identity: every compared schema path counts as one obligation (4 files); acceptance agreement: "
             "case = {document kind, mutation}; non-trivial when mutated"),
    "required": ["monitor:schema-identity-file", "monitor:schema-paths-compared", "monitor:version-strings",
                 "monitor:acceptance-agreement-strict", "monitor:acceptance-agreement-lax",
                 "monitor:validator-key-set", "monitor:validator-tag-set",
                 "expect:accept", "expect:reject"],
    "reach": ["hugr._serialization.tys:model_rebuild", "hugr._serialization.serial_hugr:SerialHugr._pydantic_rebuild",
              "hugr._serialization.serial_hugr:serialization_version"],
    "assumptions": [
        "`additionalProperties: true` on an object schema is equivalent to its absence (the installed pydantic emits "
        "it for dict[str, Any] where the generator of the published files did not)",
        "'iff for all documents' is decided through structural identity of the schema definitions; the acceptance "
        "differential only samples the presumption that pydantic's emitted schema describes its own validation",
        "mutation operators are restricted to classes on which JSON-Schema and pydantic semantics coincide "
        "(required-key deletion on keys without model defaults, unknown keys, unknown discriminator tags, "
        "wrong container kinds); values of another JSON type at any position: class-changing replacements (scalar <-> "
        "list / object / null) under both configurations, scalar-for-scalar swaps (no floats, no bool-for-number) only "
        "under the strict one -- the lax decoder's coercions between scalars (\"7\" for 7, 1 for true) are outside "
        "the comparison",
    ],
    "nshards": {"quick": 8, "thorough": 16},
}


def normalise(x):
    if isinstance(x, list):
        return [normalise(v) for v in x]
    if isinstance(x, dict):
        return {k: normalise(v) for k, v in x.items() if not (k == "additionalProperties" and v is True)}
    return x


def count_paths(x):
    if isinstance(x, dict):
        return 1 + sum(count_paths(v) for v in x.values())
    if isinstance(x, list):
        return 1 + sum(count_paths(v) for v in x)
    return 1


def schema_identity(ctx):
    from vf import env
    from vf.oracles.observe import diff

    out = os.path.join(os.environ.get("PYTHONPYCACHEPREFIX", "/var/tmp"), "..", "schema-out")
    out = os.path.abspath(out)
    os.makedirs(out, exist_ok=True)
    e = dict(os.environ)
    e["PYTHONPATH"] = str(env.SRC)
    proc = subprocess.run([sys.executable, "-B", str(env.REPO / "scripts" / "generate_schema.py"), out],
                          env=e, capture_output=True, text=True, timeout=300, cwd=out)
    if proc.returncode != 0:
        ctx.disc(None, "generate_schema-fails", "scripts/generate_schema.py", "exit 0",
                 proc.stderr[-600:], stratum="schema", case={"schema": "generate"})
        return
    pub = env.REPO / "specification" / "schema"
    emitted = sorted(f for f in os.listdir(out) if f.endswith(".json"))
    published = sorted(p.name for p in pub.glob("*.json"))
    if emitted != sorted(FILES) or published != sorted(FILES):
        ctx.disc(None, "schema-file-set", "file names", sorted(FILES), {"emitted": emitted, "published": published},
                 stratum="schema", case={"schema": "files"})
    for fn in FILES:
        if fn not in emitted or fn not in published:
            continue
        ctx.count("monitor:schema-identity-file")
        a = normalise(json.loads((pub / fn).read_text()))
        b = normalise(json.loads(open(os.path.join(out, fn)).read()))
        ctx.count("monitor:schema-paths-compared", count_paths(a))
        case = {"schema": fn}
        ctx.case("schema", case, True)
        for p, x, y in diff(a, b, limit=8):
            ctx.disc(None, "schema-differs", [fn, p], x, y, stratum="schema", case=case)
    # version strings
    from hugr._serialization.extension import Extension, Package
    from hugr._serialization.serial_hugr import SerialHugr
    from hugr._serialization.testing_hugr import TestingHugr

    ctx.count("monitor:version-strings")
    vs = {m.__name__: m.get_version() for m in (SerialHugr, TestingHugr, Extension, Package)}
    suffixes = {fn.rsplit("_", 1)[1][:-5] for fn in published}
    if len(set(vs.values())) != 1 or suffixes != set(vs.values()):
        ctx.disc(None, "version-strings", "models vs file names", sorted(suffixes), vs, stratum="schema",
                 case={"schema": "version"})


# ------------------------------------------------------------------------------------ acceptance differential
SAFE_DELETE = {  # op -> keys that are required by both formalisms (no model default, no forced `required`)
    None: ["nodes", "edges"],
    "FuncDefn": ["name", "signature", "parent"], "FuncDecl": ["name", "signature"],
    "Call": ["func_sig", "type_args", "instantiation"], "LoadConstant": ["datatype"],
    "LoadFunction": ["func_sig", "type_args", "instantiation"], "Tag": ["tag", "variants"], "Const": ["v"],
    "ExitBlock": ["cfg_outputs"], "DataflowBlock": ["sum_rows"], "Extension": ["extension", "name"],
    "AliasDecl": ["name", "bound"], "AliasDefn": ["name", "definition"], "Input": ["parent"],
}


_SLOTS: list = []


def any_slots():
    """(tag, required keys, all keys, field, is_dict) for every model field the compiled validators leave unconstrained
    (`Any`, or a dict of `Any`): found by walking the validators' own description, not listed by hand"""
    if _SLOTS:
        return _SLOTS
    from hugr._serialization.extension import Extension, Package
    from hugr._serialization.serial_hugr import SerialHugr
    from hugr._serialization.testing_hugr import TestingHugr

    seen = {}

    def walk(x):
        if isinstance(x, dict):
            if x.get("type") == "model" and isinstance(x.get("cls"), type):
                seen.setdefault(x["cls"], x)
            for k, v in x.items():
                if k not in ("metadata", "cls"):
                    walk(v)
        elif isinstance(x, (list, tuple)):
            for v in x:
                walk(v)

    def strip(sc):
        while sc.get("type") in ("default", "nullable", "function-wrap", "function-before", "function-after"):
            sc = sc["schema"]
        return sc

    for M in (SerialHugr, TestingHugr, Package, Extension):
        walk(M.__pydantic_core_schema__)
    for cls, node in seen.items():
        inner = strip(node["schema"])
        if inner.get("type") != "model-fields":
            continue
        tag, req, slots = None, set(), []
        for name, f in inner["fields"].items():
            key = f.get("validation_alias") if isinstance(f.get("validation_alias"), str) else name
            fs = f["schema"]
            base = strip(fs)
            if fs.get("type") != "default":
                req.add(key)
            if base.get("type") == "literal" and fs.get("type") == "default" and tag is None and len(
                    base.get("expected", [])) == 1:
                tag = (key, base["expected"][0])
            if base.get("type") == "any":
                slots.append((key, False))
            elif base.get("type") == "dict" and strip(base.get("values_schema", {"type": "any"})).get("type") == "any":
                slots.append((key, True))
        for key, is_dict in slots:
            _SLOTS.append((cls.__name__, tag, frozenset(req), frozenset(inner["fields"]), key, is_dict))
    return _SLOTS


FREE = [{}, 7, "x", None, [1, {"a": None}], {"nodes": 3}, {"nodes": [], "edges": []}, {"version": "live"}, True]


def mutate(r, kind, doc, force=None, prefer=None, at=None):
    """returns (mutated doc, expected verdict in strict, expected verdict in lax) or None"""
    d = copy.deepcopy(doc)
    hugrs = [d] if kind == "hugr" else (d["modules"] if kind == "package" else [])
    op = r.choice(["none", "delete", "unknown-key", "bad-tag", "wrong-container", "unknown-key-nested", "enum-value",
                   "free-form", "free-form"])
    op = force or op
    if op == "retype":
        # "same types": a value anywhere in the document is replaced by a value of another JSON type.  Positions are
        # drawn per distinct generic path (so that rare positions -- a metadata entry, a version string -- get the same
        # weight as the hundreds of type rows).  Class-changing replacements (scalar <-> list / object / null) are
        # judged under both configurations; scalar-for-scalar swaps only under the strict one, because the lax decoder
        # coerces between scalars by design ("7" for 7, 1 for true) -- stated as an assumption.
        from vf.oracles.observe import generic_path

        spots = {}

        def label(x):
            # the model an object belongs to, as far as the document shows it: its discriminator tag(s)
            if isinstance(x, dict):
                tags = [f"{k}={x[k]}" for k in ("op", "t", "tya", "tp", "v", "s", "b", "c") if isinstance(x.get(k), str)]
                return ",".join(tags[:2])
            return ""

        def walk3(x, path, lab):
            # position classes follow the MODELS (nearest tagged object + key), not the paths: the `arg` of a string
            # argument is one class wherever string arguments occur
            if isinstance(x, dict):
                here = label(x) or lab
                for k2, v2 in x.items():
                    spots.setdefault(f"{here or path.split('[')[0]}/{k2}", []).append((x, k2))
                    walk3(v2, f"{path}.{k2}", here)
            elif isinstance(x, list):
                for k2, v2 in enumerate(x):
                    spots.setdefault(f"{lab}/{generic_path(path).rsplit('.', 1)[-1]}[*]", []).append((x, k2))
                    walk3(v2, f"{path}[{k2}]", lab)

        walk3(d, "", "")
        if not spots:
            return None
        if at is not None:
            # replay: the recorded position and replacement
            gp, idx, new = at
            tgt, k2 = spots[gp][idx]
            tgt[k2] = new
            return at[3], d, None, None
        if prefer is not None:
            # coverage-guided: the position class mutated least often so far (per kind of document) comes first
            gp = min(sorted(spots), key=lambda g: (prefer.get((kind, g), 0), r.random()))
            prefer[(kind, gp)] = prefer.get((kind, gp), 0) + 1
        else:
            gp = r.choice(sorted(spots))
        idx = r.randrange(len(spots[gp]))
        tgt, k2 = spots[gp][idx]
        old = tgt[k2]
        scalar = old is None or isinstance(old, (bool, int, float, str))
        # replacements of this position class are taken in turn (k-th visit -> k-th option), so that every class sees
        # every kind of replacement.  Scalar for scalar: no floats (1.0 is an integer for JSON Schema), no bool for a
        # number and no number for a bool -- kept to what both formalisms treat as different types.
        if scalar:
            swap = ["x"] if isinstance(old, (bool, int, float)) else [7, 7.5] if isinstance(old, str) else [7, "x"]
            if isinstance(old, int) and not isinstance(old, bool):
                swap = [old + 0.5, "x", -old - 0.5]     # (a fractional number is no integer in either formalism)
            pads = [("retype-pad", " " + old), ("retype-pad", old + " "), ("retype-pad", "\t" + old + "\n")] \
                if isinstance(old, str) else []
            # (a string padded with white space is another string: where the schema constrains the string -- tags,
            # enumerations, patterns -- both formalisms refuse it, elsewhere both take it as it is)
            options = pads + [("retype-swap", v) for v in swap] + [("retype-class", v) for v in
                                                             ([[1], {"zz": 1}, [], {}] + ([] if old is None else [None]))]
        elif isinstance(old, list):
            options = [("retype-class", v) for v in (7, "x", {"zz": 1}, None, True)]
        else:
            options = [("retype-class", v) for v in (7, "x", [1], None, True)]
            # ... and a well-formed object of ANOTHER model taken from elsewhere in the same document (a type where a
            # type argument belongs, a value where an operation belongs): it has been seen and accepted in its own
            # place, here it is as wrong as any other object
            mine = label(old).split("=")[0]
            donors = []

            def walk4(x):
                if isinstance(x, dict):
                    lb = label(x)
                    if lb and lb.split("=")[0] != mine and x is not old:
                        donors.append(x)
                    for v2 in x.values():
                        walk4(v2)
                elif isinstance(x, list):
                    for v2 in x:
                        walk4(v2)

            walk4(d)
            if donors:
                by = {}
                for x in donors:
                    by.setdefault(label(x).split("=")[0], []).append(x)
                cls_ = r.choice(sorted(by))
                options += [("retype-transplant", copy.deepcopy(r.choice(by[cls_]))) for _ in range(2)]
        turn = (prefer.get((kind, gp), 1) - 1 + prefer.get("offset", 0)) if prefer is not None else r.randrange(len(options))
        mop2, new = options[turn % len(options)]
        tgt[k2] = new
        return mop2, d, None, None, [gp, idx, new, mop2]
    if op == "free-form":
        # a position both formalisms leave unconstrained (function-value bodies, custom-constant payloads, `misc`
        # entries, fixed lowerings) is given arbitrary JSON: nothing may look inside it while decoding structurally
        spots = []

        def walk2(x):
            if isinstance(x, dict):
                for cname, tag, req, allk, key, is_dict in any_slots():
                    if key in x and (tag is None or x.get(tag[0]) == tag[1]) and req <= set(x) <= allk and (
                            not is_dict or isinstance(x[key], dict)):
                        spots.append((x, key, is_dict, cname))
                for v2 in x.values():
                    walk2(v2)
            elif isinstance(x, list):
                for v2 in x:
                    walk2(v2)

        walk2(d)
        if not spots:
            return None
        classes = sorted({sp[3] for sp in spots})
        cn = "FunctionValue" if force and "FunctionValue" in classes else r.choice(classes)   # (class first)
        tgt, key, is_dict, cname = r.choice([sp for sp in spots if sp[3] == cn])
        if is_dict:
            tgt[key]["zz"] = r.choice(FREE)
        else:
            tgt[key] = r.choice(FREE)
        return f"free-form-{cname}", d, None, None
    if op == "enum-value":
        # an enumerated field (type bounds "C" / "A") given a near miss: the names of the Python enum members, other
        # cases, other letters; the value set is part of "same types" in both formalisms
        spots = []

        def walk(x):
            if isinstance(x, dict):
                for k2, v2 in x.items():
                    if k2 in ("bound", "b") and v2 in ("C", "A"):
                        spots.append((x, k2))
                    walk(v2)
            elif isinstance(x, list):
                for v2 in x:
                    walk(v2)

        walk(d)
        if not spots:
            return None
        tgt, k2 = r.choice(spots)
        tgt[k2] = r.choice(["Copyable", "Any", "Copyable", "Any", "c", "a", "copyable", "Linear", "E", "", "TypeBound.Any"])
        # (a "b" / "bound" key may also sit in free-form JSON, where anything goes: only the agreement of the two
        # formalisms is judged, no verdict is expected)
        return op, d, None, None
    if op == "none":
        return "none", d, True, True
    if kind == "testing":
        if op == "unknown-key-nested" and isinstance(d.get("poly_func_type"), dict):
            # a model the testing document embeds directly (not through a tagged union): it takes part in the rebuild
            d["poly_func_type"]["zzz_unknown"] = 1
            return "unknown-key-in-poly_func_type", d, False, True
        if op == "unknown-key-nested" and isinstance(d.get("op_def"), dict):
            d["op_def"]["zzz_unknown"] = 1
            return "unknown-key-in-op_def", d, None, None
        if op in ("unknown-key", "unknown-key-nested"):
            d["zzz_unknown"] = 1
            return "unknown-key-testing", d, False, True
        if op == "bad-tag" and d.get("typ"):
            d["typ"] = {**d["typ"], "t": "NoSuchType"}
            return op, d, False, False
        if op == "wrong-container":
            d[r.choice(["typ", "value", "optype", "sum_type"])] = [1]
            return op, d, False, False
        if op == "delete" and d.get("value", {}).get("v") == "Sum":
            del d["value"]["tag"]
            return op, d, False, False
        return None
    if kind == "extension":
        if op == "delete":
            del d[r.choice(["version", "name", "runtime_reqs", "types", "values", "operations"])]
            return op, d, False, False
        if op in ("unknown-key", "unknown-key-nested"):
            # the extension / package models are not part of the strict rebuild: the published strict
            # schema does not forbid additional properties on them either
            d["zzz_unknown"] = 1
            return op + "-ext", d, True, True
        if op == "wrong-container":
            d["types"] = []
            return op, d, False, False
        return None
    if not hugrs:
        if op == "delete" and kind == "package":
            del d["modules"]
            return op, d, False, False
        return None
    h = r.choice(hugrs)
    nodes = h["nodes"]
    if op == "delete":
        cands = [(None, None, k) for k in SAFE_DELETE[None]]
        for i, n in enumerate(nodes):
            for k in SAFE_DELETE.get(n["op"], []):
                if k in n:
                    cands.append((i, n, k))
        i, n, k = r.choice(cands)
        if n is None:
            del h[k]
        else:
            del n[k]
        return op, d, False, False
    if op == "unknown-key":
        h["zzz_unknown"] = {"a": 1}
        return op, d, False, True
    if op == "unknown-key-nested":
        r.choice(nodes)["zzz_unknown"] = [1]
        return op, d, False, True
    if op == "bad-tag":
        r.choice(nodes)["op"] = "NoSuchOp"
        return op, d, False, False
    if op == "wrong-container":
        if r.random() < 0.5:
            h["nodes"] = {"0": nodes[0]}
        else:
            h["edges"] = "none"
        return op, d, False, False
    return None


def corpus_doc(r, want=None):
    from vf.gen.extensions import build_extension, gen_extension
    from vf.gen.prog import gen_program
    from vf.interp import Interp

    k = want or r.choice(["hugr", "hugr", "hugr", "package", "extension", "testing"])
    if k == "testing":
        # a document of the testing model: any subset of {type, sum type, value, operation}, encoded from generated
        # descriptors
        from vf.gen.types import Builder, Gen
        from vf.gen.values import VBuilder, VGen, constable
        from vf.props import c05

        g = Gen(r, allow_vars=False)
        B = Builder()
        doc = {"version": "live"}
        if r.random() < 0.7:
            doc["typ"] = c05.dump(B.ty(g.ty(2)))
        if r.random() < 0.4:
            doc["sum_type"] = c05.dump(B.ty(["sum", [g.row(1, 2, in_row=False) for _ in range(r.randint(0, 3))]]))
        if r.random() < 0.5 or want:
            vg = VGen(r)
            td = vg.const_type(2)
            if r.random() < 0.4 or want:
                # (a quota of function-valued constants: their body is the largest unconstrained position)
                for _ in range(12):
                    if td[0] == "func" and constable(td):
                        break
                    td = vg.const_type(2)
            if constable(td):
                doc["value"] = c05.dump(VBuilder(B).val(vg.value(td, 2)))
        if r.random() < 0.5:
            c = c05.gen_op(r, 1)
            doc["optype"] = {"parent": 0, **c05.dump_op(c05.build_op(c, Builder()))}
        if r.random() < 0.4 or want:
            from hugr import tys as _tys
            from vf.gen.types import gen_poly

            params, body, _, _ = gen_poly(r, g, 1)
            doc["poly_func_type"] = _tys.PolyFuncType([B.param(p_) for p_ in params], B.func(body))._to_serial(
                ).model_dump(mode="json")
        if r.random() < 0.3:
            e = json.loads(build_extension(gen_extension(r, small=True)).to_json())
            if e["operations"]:
                doc["op_def"] = e["operations"][sorted(e["operations"])[0]]
        return k, doc
    if k == "hugr":
        p = gen_program(r, budget=8, max_depth=2)
        return k, json.loads(Interp().run(p).to_json())
    if k == "extension":
        d_ = json.loads(build_extension(gen_extension(r, small=True)).to_json())
        # every other extension document gives its first operation fixed lowerings (extension set + any JSON)
        names_ = sorted(d_["operations"])
        if names_ and r.random() < 0.5:
            d_["operations"][names_[0]]["lower_funcs"] = [
                {"extensions": ["a.ext", "b.ext"], "hugr": {"nodes": [], "edges": []}},
                {"extensions": [], "hugr": None}][:r.randint(1, 2)]
        return k, d_
    from hugr.package import Package

    mods = [Interp().run(gen_program(r, kind="module", budget=6, max_depth=2)) for _ in range(r.randint(0, 2))]
    exts = [build_extension(gen_extension(r, name=f"e{j}", small=True)) for j in range(r.randint(0, 1))]
    return k, json.loads(Package(mods, exts)._to_serial().model_dump_json())


def zoo_type():
    """a type expression that holds one of every kind of type argument, parameter-free type and nested type: every
    model of the type language appears in the corpus whatever the random documents happen to contain"""
    from hugr import tys
    from vf.props import c05

    C, A = tys.TypeBound.Copyable, tys.TypeBound.Any
    inner = tys.Opaque("Inner", C, [tys.StringArg("txt"), tys.BoundedNatArg(3)], "zoo.ext")
    args = [tys.StringArg("s"), tys.BoundedNatArg(7), tys.TypeTypeArg(inner),
            tys.SequenceArg([tys.StringArg("in-seq"), tys.BoundedNatArg(1), tys.TypeTypeArg(tys.Qubit)]),
            tys.ExtensionsArg(["a.ext", "b.ext"]), tys.VariableArg(0, tys.StringParam()),
            tys.VariableArg(1, tys.BoundedNatParam(5)), tys.VariableArg(2, tys.ListParam(tys.TypeTypeParam(A))),
            tys.VariableArg(3, tys.TupleParam([tys.StringParam(), tys.ExtensionsParam()])),
            tys.TypeTypeArg(tys.FunctionType([tys.Variable(0, C), tys.RowVariable(1, A)], [tys.USize(), tys.Alias("al", C)],
                                             ["r.ext"])),
            tys.TypeTypeArg(tys.Sum([[tys.Bool], [], [tys.UnitSum(3), tys.Tuple(tys.Unit)]]))]
    return c05.dump(tys.Opaque("Zoo", A, args, "zoo.ext"))


def acceptance(ctx, mode, cases):
    import jsonschema
    from hugr._serialization.extension import Extension, Package
    from hugr._serialization.serial_hugr import SerialHugr
    from pydantic import ConfigDict, ValidationError
    from vf import env

    strict = mode == "strict"
    cfg = ConfigDict(strict=True, extra="forbid") if strict else ConfigDict(strict=False, extra="allow")
    from hugr._serialization.testing_hugr import TestingHugr

    # As in scripts/generate_schema.py a configuration is established for a model by ITS OWN _pydantic_rebuild, coming
    # from whatever configuration was in force before (there: the other one).  So: put everything into the other
    # configuration first, then rebuild the testing model and judge the testing documents, then rebuild the HUGR model
    # and judge the rest.  (Rebuilding both up front would hide a rebuild that leaves one of its own members behind.)
    other = ConfigDict(strict=False, extra="allow") if strict else ConfigDict(strict=True, extra="forbid")
    SerialHugr._pydantic_rebuild(other, force=True)
    TestingHugr._pydantic_rebuild(other, force=True)
    fn = "hugr_schema_strict_live.json" if strict else "hugr_schema_live.json"
    schema = json.loads((env.REPO / "specification" / "schema" / fn).read_text())
    val = {k: jsonschema.Draft202012Validator({"$ref": f"#/$defs/{n}", "$defs": schema["$defs"]})
           for k, n in (("hugr", "SerialHugr"), ("package", "Package"), ("extension", "Extension"))}
    tschema = json.loads((env.REPO / "specification" / "schema" / ("testing_" + fn)).read_text())
    val["testing"] = jsonschema.Draft202012Validator({"$ref": "#/$defs/TestingHugr", "$defs": tschema["$defs"]})
    model = {"hugr": SerialHugr, "package": Package, "extension": Extension, "testing": TestingHugr}
    TestingHugr._pydantic_rebuild(cfg, force=True)
    phase2 = False
    for case in sorted(cases, key=lambda c_: c_["kind"] != "testing"):
        if case["kind"] != "testing" and not phase2:
            SerialHugr._pydantic_rebuild(cfg, force=True)
            phase2 = True
        kind, mop, doc, exp = case["kind"], case["mutation"], case["doc"], case["expect"][0 if strict else 1]
        # (the scalar swaps made are "a word for a number / boolean" and "a number for a string": neither is among the
        # lax decoder's coercions -- it parses numeric strings and exchanges numbers and booleans --, so they are
        # judged under both configurations)
        ctx.count(f"monitor:acceptance-agreement-{mode}")
        ctx.count("expect:" + ("either" if exp is None else "accept" if exp else "reject"))
        if strict:
            ctx.count("mutation:" + (mop if not mop.startswith("delete-top-") else "delete-top"))
        js = val[kind].is_valid(doc)
        pd_errs = []
        try:
            model[kind].model_validate_json(json.dumps(doc))
            pd = True
        except ValidationError as ve:
            pd = False
            pd_errs = ve.errors()
        rec = {"kind": kind, "mutation": mop, "mode": mode, "rng": case["rng"]}
        if case.get("at"):
            rec["at"] = case["at"]
        if js != pd:
            key = None
            # the open finding is about validators of NESTED models surviving a strict rebuild: an unknown key inside a
            # node, or inside a module of a package; an unknown key at the top level of the rebuilt model itself
            # (SerialHugr, TestingHugr) IS rejected on the unchanged tree and stays a violation if it is not
            nested = mop == "unknown-key-nested" or (kind == "package" and mop == "unknown-key")
            if strict and nested and not js and pd:
                key = "strict-rebuild-leaves-stale-nested-validators"
            # second open finding, by mechanism: the ONLY thing the decoder objects to is a missing tag `b` of a type
            # definition's bound, which the published schema does not require (the tag has a default there)
            if js and not pd and pd_errs and all(
                    er.get("type") == "union_tag_not_found" and "'b'" in str((er.get("ctx") or {}).get("discriminator"))
                    for er in pd_errs):
                key = "typedef-bound-tag-defaulted-in-schema-required-by-decoder"
            ctx.disc(key, f"acceptance-disagreement[{mode}.{mop}]", rec, {"published-schema": js},
                     {"pydantic": pd}, stratum="acceptance", case=rec)
        elif exp is not None and js != exp:
            # both agree with each other but not with the operator's intent: a harness expectation problem
            ctx.disc(None, f"operator-expectation[{mode}.{mop}]", rec, exp, js, stratum="acceptance", case=rec,
                     prop="HARNESS")
    if not phase2:
        SerialHugr._pydantic_rebuild(cfg, force=True)
    default_agreement(ctx, mode, model, {"hugr": schema, "package": schema, "extension": schema, "testing": tschema},
                      cases, val)
    if ctx.shard == 0:
        validator_keys(ctx, mode, model, {"hugr": schema, "package": schema, "extension": schema, "testing": tschema})


_DEF_COVER: dict = {}


def default_agreement(ctx, mode, models, schemas, cases, validators):
    """"same defaults": where the published definition of a model gives a property a default, the decoder reads a
    document that leaves the key out as if the key were there with that default.  For unmutated corpus documents, up to
    three (class, property) positions per document (least visited first): the key is removed, the document decoded, and
    the attribute the decoder filled in is compared with the published default."""
    import enum

    from pydantic import BaseModel, RootModel, ValidationError

    def dump(v):
        if isinstance(v, BaseModel):
            return v.model_dump(mode="json", by_alias=True)
        if isinstance(v, enum.Enum):
            return v.value
        if isinstance(v, (list, tuple)):
            return [dump(x) for x in v]
        if isinstance(v, (set, frozenset)):
            return sorted(dump(x) for x in v)
        if isinstance(v, dict):
            return {k: dump(x) for k, x in v.items()}
        return v

    def walk(inst, j, acc, jpath, defs, out):
        if isinstance(inst, RootModel):
            walk(inst.root, j, [*acc, ("attr", "root")], jpath, defs, out)
        elif isinstance(inst, BaseModel):
            if not isinstance(j, dict):
                return
            cls = type(inst)
            d = defs.get(cls.__name__)
            fields = cls.model_fields
            by_key = {(f.alias or n): n for n, f in fields.items()}
            if d is not None and d.get("title", cls.__name__) == cls.__name__:
                for pname, ps in (d.get("properties") or {}).items():
                    if "default" in ps and pname in by_key and "const" not in ps:   # (tags are decided by the unions)
                        out.append((acc, jpath, cls.__name__, pname, by_key[pname], ps["default"]))
            for key, name in by_key.items():
                if key in j:
                    walk(getattr(inst, name), j[key], [*acc, ("attr", name)], [*jpath, key], defs, out)
        elif isinstance(inst, (list, tuple)) and isinstance(j, list):
            for i, (a, b) in enumerate(zip(inst, j)):
                walk(a, b, [*acc, ("idx", i)], [*jpath, i], defs, out)
        elif isinstance(inst, dict) and isinstance(j, dict):
            for k in j:
                if k in inst:
                    walk(inst[k], j[k], [*acc, ("key", k)], [*jpath, k], defs, out)

    def follow(inst, acc):
        for how, x in acc:
            inst = getattr(inst, x) if how == "attr" else inst[x]
        return inst

    for case in cases:
        if case["mutation"] != "none":
            continue
        kind, doc = case["kind"], case["doc"]
        M = models[kind]
        try:
            inst = M.model_validate_json(json.dumps(doc))
        except ValidationError:
            continue
        cands: list = []
        walk(inst, doc, [], [], schemas[kind]["$defs"], cands)
        cands.sort(key=lambda c: (_DEF_COVER.get((c[2], c[3]), 0), len(c[1])))
        for acc, jpath, cname, pname, fname, default in cands[:3]:
            _DEF_COVER[(cname, pname)] = _DEF_COVER.get((cname, pname), 0) + 1
            d1 = copy.deepcopy(doc)
            tgt = d1
            for k in jpath:
                tgt = tgt[k]
            tgt.pop(pname, None)
            ctx.count("monitor:default-agreement")
            rec = {"kind": kind, "mutation": f"default[{cname}.{pname}]", "mode": mode, "rng": case["rng"]}
            try:
                inst1 = M.model_validate_json(json.dumps(d1))
                got = dump(getattr(follow(inst1, acc), fname))
            except Exception as e:  # noqa: BLE001
                if not validators[kind].is_valid(d1):
                    ctx.count("default-agreement:both-reject-without-the-key")
                    continue
                ctx.disc(None, f"default-disagreement[{cname}.{pname}]", rec, {"published default": default},
                         f"{type(e).__name__}: {str(e)[:160]}", stratum="acceptance", case=rec)
                continue
            if got != default and not (isinstance(default, list) and sorted(map(repr, got or [])) == sorted(map(repr, default))):
                ctx.disc(None, f"default-disagreement[{cname}.{pname}]", rec, {"published default": default},
                         {"decoder read": got}, stratum="acceptance", case=rec)
    ctx.extra["default_positions_" + mode] = len(_DEF_COVER)


def validator_keys(ctx, mode, models, schemas):
    """What pydantic's schema emission cannot show: the keys the LIVE validator of every model reads (validation
    aliases included) and the tags its tagged unions dispatch on, taken from the compiled validator's own description
    (`__pydantic_core_schema__`), must be the published definition's property names / discriminator tags."""
    for kind, M in models.items():
        seen = {}

        def walk(x):
            if isinstance(x, dict):
                if x.get("type") == "model" and isinstance(x.get("cls"), type):
                    seen.setdefault(x["cls"], x)
                for k, v in x.items():
                    if k not in ("metadata", "cls"):
                        walk(v)
            elif isinstance(x, (list, tuple)):
                for v in x:
                    walk(v)

        walk(M.__pydantic_core_schema__)
        defs = schemas[kind]["$defs"]
        for cls, node in seen.items():
            d = defs.get(cls.__name__)
            inner = node["schema"]
            while inner.get("type") in ("function-wrap", "function-before", "function-after", "default", "nullable"):
                inner = inner["schema"]
            case = {"schema": f"validator-keys {mode} {kind} {cls.__name__}"}
            if d is None or d.get("title", cls.__name__) != cls.__name__:
                ctx.count("observed:model-without-published-definition")
                continue
            if inner.get("type") == "model-fields":
                ctx.count("monitor:validator-key-set")
                by_name = bool((node.get("config") or {}).get("populate_by_name")
                               or (node.get("config") or {}).get("validate_by_name"))
                keys = set()
                for name, f in inner["fields"].items():
                    va = f.get("validation_alias")
                    if va is None:
                        keys.add(name)
                        continue
                    if by_name:
                        keys.add(name)
                    if isinstance(va, str):
                        keys.add(va)
                    else:   # one path, or a list of alternative paths: the first element is the key read
                        paths = va if va and isinstance(va[0], list) else [va]
                        keys.update(str(pth[0]) for pth in paths if pth)
                want = set(d.get("properties", {}))
                if keys != want:
                    ctx.disc(None, "validator-reads-other-keys", [mode, kind, cls.__name__], sorted(want), sorted(keys),
                             stratum="schema", case=case)
            elif inner.get("type") == "tagged-union":
                ctx.count("monitor:validator-tag-set")
                want = set((d.get("discriminator") or {}).get("mapping") or {})
                got = {str(k) for k in inner["choices"]}
                if want and got != want:
                    ctx.disc(None, "validator-dispatches-on-other-tags", [mode, kind, cls.__name__], sorted(want),
                             sorted(got), stratum="schema", case=case)


def _ff_force(i):
    # testing documents alternate between the unconstrained positions and an unknown key inside a directly embedded model
    return "unknown-key-nested" if i % 3 and i % 2 else "free-form"


def gen_cases(ctx, n):
    cases = []
    for i in ctx.mine(n):
        r = ctx.rng("acc", i)
        kind, doc = corpus_doc(r)
        m = mutate(r, kind, doc)
        if m is None:
            continue
        mop, d, es, el = m
        case = {"kind": kind, "mutation": mop, "doc": d, "expect": [es, el], "rng": ["acc", i]}
        cases.append(case)
        ctx.case("acceptance", {"kind": kind, "mutation": mop, "rng": ["acc", i]}, mop != "none")
        # systematically: every top-level key of the document that is required by both formalisms
        if len(cases) < 400:
            tops = {"hugr": ["nodes", "edges"], "package": ["modules"], "testing": [],
                    "extension": ["version", "name", "runtime_reqs", "types", "values", "operations"]}[kind]
            for key in tops:
                d2 = {k: v for k, v in doc.items() if k != key}
                cases.append({"kind": kind, "mutation": f"delete-top-{key}", "doc": d2, "expect": [False, False],
                              "rng": ["acc", i]})
                ctx.case("acceptance", {"kind": kind, "mutation": f"delete-top-{key}", "rng": ["acc", i]}, True)
    # a dedicated share for the positions no schema constrains (testing documents carrying a function value,
    # extension documents carrying `misc` entries and values)
    for i in ctx.mine(ctx.n(240, 6000)):
        r = ctx.rng("ff", i)
        kind, doc = corpus_doc(r, want="testing" if i % 3 else "extension")
        m = mutate(r, kind, doc, force=_ff_force(i))
        if m is None:
            continue
        mop, d, es, el = m
        cases.append({"kind": kind, "mutation": mop, "doc": d, "expect": [es, el], "rng": ["ff", i]})
        ctx.case("acceptance", {"kind": kind, "mutation": mop, "rng": ["ff", i]}, True)
    # a share for values of another JSON type at any position: several mutants per document, position classes chosen
    # least-mutated-first so that every class of position the corpus has is reached
    prefer: dict = {"offset": ctx.shard}   # (shards start the cycle of replacements at different options)
    for i in ctx.mine(ctx.n(320, 8000)):
        r = ctx.rng("rt", i)
        kind, doc = corpus_doc(r)
        if i % 4 == 3:
            kind, doc = corpus_doc(r, want="testing")
            doc["typ"] = zoo_type()
        for j in range(4):
            m = mutate(r, kind, doc, force="retype", prefer=prefer)
            if m is None:
                continue
            mop, d, es, el, at = m
            cases.append({"kind": kind, "mutation": mop, "doc": d, "expect": [es, el], "rng": ["rt", i], "at": at})
            ctx.case("acceptance", {"kind": kind, "mutation": mop, "rng": ["rt", i], "at": at}, True)
    ctx.extra["retype_position_classes"] = len(prefer) - 1
    # unmutated documents for the default-agreement monitor (and as accept / accept cases of the differential)
    for i in ctx.mine(ctx.n(400, 10000)):
        r = ctx.rng("da", i)
        kind, doc = corpus_doc(r, want=["extension", "testing", None, None][i % 4])
        cases.append({"kind": kind, "mutation": "none", "doc": doc, "expect": [True, True], "rng": ["da", i]})
        ctx.case("acceptance", {"kind": kind, "mutation": "none", "rng": ["da", i]}, True)
    return cases


def run(ctx):
    if ctx.shard == 0:
        ctx.guard("schema", {"schema": "identity"}, schema_identity, ctx)
    cases = gen_cases(ctx, ctx.n(600, 20000))
    ctx.guard("acceptance", None, acceptance, ctx, "strict", cases)
    ctx.guard("acceptance", None, acceptance, ctx, "lax", cases)


def replay(ctx, rec):
    case = rec.get("case") or {}
    if rec.get("stratum") == "acceptance" and "rng" in case:
        r = ctx.rng(*case["rng"])
        if case["rng"][0] == "da":
            kind, doc = corpus_doc(r, want=["extension", "testing", None, None][case["rng"][1] % 4])
            acceptance(ctx, case.get("mode", "strict"),
                       [{"kind": kind, "mutation": "none", "doc": doc, "expect": [True, True], "rng": case["rng"]}])
            return
        if case["rng"][0] == "ff":
            kind, doc = corpus_doc(r, want="testing" if case["rng"][1] % 3 else "extension")
            mop, d, es, el = mutate(r, kind, doc, force=_ff_force(case["rng"][1]))
            acceptance(ctx, case.get("mode", "strict"),
                       [{"kind": kind, "mutation": mop, "doc": d, "expect": [es, el], "rng": case["rng"]}])
            return
        kind, doc = corpus_doc(r)
        if case["rng"][0] == "rt":
            if case["rng"][1] % 4 == 3:
                kind, doc = corpus_doc(r, want="testing")
                doc["typ"] = zoo_type()
            mop, d, es, el = mutate(r, kind, doc, force="retype", at=case["at"])
            acceptance(ctx, case.get("mode", "strict"),
                       [{"kind": kind, "mutation": mop, "doc": d, "expect": [es, el], "rng": case["rng"]}])
            return
        if str(case.get("mutation", "")).startswith("delete-top-"):
            key = case["mutation"][len("delete-top-"):]
            mop, d, es, el = case["mutation"], {k: v for k, v in doc.items() if k != key}, False, False
        else:
            mop, d, es, el = mutate(r, kind, doc)
        c = [{"kind": kind, "mutation": mop, "doc": d, "expect": [es, el], "rng": case["rng"]}]
        acceptance(ctx, case.get("mode", "strict"), c)
    elif str(case.get("schema", "")).startswith("validator-keys"):
        acceptance(ctx, case["schema"].split()[1], [])
    else:
        schema_identity(ctx)
