"""C15 — index-based (tracked) wiring is equivalent to explicit wiring.

Differential: a random script over the TrackedDfg API is run on the real TrackedDfg while the
harness keeps the tracking model the property describes (list of wire-or-None) and replays the
same script on a plain Dfg with explicit wires.  After every step `tracked` must equal the model,
an untracked index must raise IndexError exactly when the model says so, and at the end the two
HUGRs must be equal node for node and link for link, metadata included."""

from __future__ import annotations

ID = "C15"
META = {
    "level": "exploration",
    "rule": ("case = script (JSON); distinct by JSON; non-trivial when it has >= 3 add steps with >= 1 command mixing "
             "integer and wire arguments"),
    "required": ["monitor:tracked-list", "monitor:hugr-equality", "monitor:index-error", "feature:mixed-args",
                 "feature:untrack", "feature:metadata", "feature:set_tracked_outputs",
                 "feature:set_indexed_outputs", "feature:extend", "feature:rebinding-to-other-port",
                 "feature:command-object-reused", "feature:node-handle-as-wire", "feature:repeated-index",
                 "feature:set_indexed_outputs-untracked-index", "feature:add-index-names-freed-hole",
                 "feature:plain-side-through-add", "feature:set_tracked_outputs-without-live-index"],
    "reach": ["hugr.build.tracked_dfg:TrackedDfg.add", "hugr.build.tracked_dfg:TrackedDfg.tracked_wire",
              "hugr.build.tracked_dfg:TrackedDfg.untrack_wire", "hugr.build.tracked_dfg:TrackedDfg.set_tracked_outputs"],
    "assumptions": ["non-negative indices only (negative indexing into the tracked list is not part of the statement)",
                    "circuits of width 1..6, <= 14 (quick) / 30 (thorough) steps"],
    "nshards": {"quick": 8, "thorough": 16},
}

OPS = {  # name -> (input types, output types) over {"q","b"}
    "H": ("q", "q"), "CX": ("qq", "qq"), "Measure": ("q", "qb"), "Not": ("b", "b"), "Fan3": ("b", "bbb"),
    "Swap": ("bq", "qb"), "Noop": ("?", "?"), "QFree": ("q", ""), "QAlloc": ("", "q"),
    "CCX": ("qqq", "qqq"), "And2": ("bb", "b"),
}


def gen_script(r, max_steps):
    width = r.randint(1, 6)
    tys = [r.choice("qqb") for _ in range(width)]
    sc = {"tys": tys, "track_inputs": r.random() < 0.6, "steps": []}
    # shadow: tracked list of (type) or None; wires: list of (ref, type)
    tracked = [t for t in tys] if sc["track_inputs"] else []
    wires = [(["in", i], t) for i, t in enumerate(tys)]
    nadd = 0
    for _ in range(r.randint(2, max_steps)):
        p = r.random()
        if p < 0.12:
            w = r.choice(wires)
            sc["steps"].append(["track_wire", w[0]])
            tracked.append(w[1])
        elif p < 0.16:
            ws = [r.choice(wires) for _ in range(r.randint(0, 3))]
            sc["steps"].append(["track_wires", [w[0] for w in ws]])
            tracked.extend(w[1] for w in ws)
        elif p < 0.19:
            sc["steps"].append(["track_inputs"])
            tracked.extend(tys)
        elif p < 0.215 and nadd:
            # the Iterable of wires given to track_wires is a node HANDLE (it iterates over its output wires): one
            # index per output
            k = r.randrange(nadd)
            outs_k = [w for w in wires if w[0][0] == "out" and w[0][1] == k]
            sc["steps"].append(["track_node", k, len(outs_k)])
            tracked.extend(w[1] for w in outs_k)
        elif p < 0.29 and tracked:
            i = r.randrange(len(tracked) + 2)
            sc["steps"].append(["untrack", i])
            if i < len(tracked):
                tracked[i] = None
        elif p < 0.9:
            cmds = []
            ncmds = 1 if r.random() < 0.7 else r.randint(2, 3)
            for _ in range(ncmds):
                name = r.choice(list(OPS))
                ins, outs = OPS[name]
                if name == "Noop":
                    ins = outs = r.choice("qb")
                args = []
                dangling = []
                for pos, t in enumerate(ins):
                    # an index is rebound to the output at the argument's position: only use one where
                    # the op has such an output
                    # (one index at most once per command: what a repeated index should be rebound to is not stated)
                    cands_i = [i for i, x in enumerate(tracked) if x == t and i not in args] if pos < len(outs) else []
                    cands_w = [w for w in wires if w[1] == t]
                    beyond = [i for i, x in enumerate(tracked) if x == t and i not in args] if pos >= len(outs) and ncmds == 1 else []
                    if beyond and r.random() < 0.35:
                        # an index at a position where the op has NO output: it is rebound all the same ("the new
                        # node's output at the argument's position"); it is untracked right after the command, the
                        # wire it then denotes cannot be used
                        args.append(r.choice(beyond))
                        dangling.append(args[-1])
                    elif cands_i and r.random() < 0.65:
                        args.append(r.choice(cands_i))
                    elif cands_w and r.random() < 0.9:
                        args.append(r.choice(cands_w)[0])
                    elif r.random() < 0.5 and pos < len(outs):
                        # untracked: IndexError -- an index beyond the list, or one that was tracked and given up
                        holes = [i for i, x in enumerate(tracked) if x is None]
                        args.append(r.choice(holes) if holes and r.random() < 0.6 else len(tracked) + r.randrange(2))
                    elif wires:
                        args.append(r.choice(wires)[0])
                    else:
                        args.append(0)
                repeat = None
                if (ncmds == 1 and name in ("And2", "Fan3", "Swap") and r.random() < 0.3 and isinstance(args[0], int)
                        and args[0] < len(tracked) and tracked[args[0]] == "b" and ins[:2] == "bb"):
                    # ONE copyable tracked index at two argument positions: both inputs get the wire tracked there now
                    args[1] = args[0]
                    repeat = args[0]
                md = {"m": r.randint(0, 9)} if r.random() < 0.3 else None
                cmds.append({"op": name, "ty": ins if name == "Noop" else None, "args": args, "md": md})
                if repeat is not None:
                    cmds[-1]["repeat"] = repeat
                    dangling.append(repeat)
                # shadow effects (only if every int arg is tracked)
                if all(not isinstance(a, int) or (a < len(tracked) and tracked[a] is not None) for a in args):
                    k = nadd
                    nadd += 1
                    for j, t in enumerate(outs):
                        wires.append((["out", k, j], t))
                    for pos, a in enumerate(args):
                        if isinstance(a, int):
                            tracked[a] = outs[pos] if pos < len(outs) else "?"
                    if repeat is not None:
                        tracked[repeat] = "?"      # which of the two positions wins is not stated: given up at once
                else:
                    break
            if len(cmds) == 1:
                sc["steps"].append(["add", cmds[0]])
                cmds[0]["dangling"] = list(dangling)
                c0 = cmds[0]
                if (r.random() < 0.2 and c0["args"] and all(isinstance(a, int) for a in c0["args"])
                        and all(a < len(tracked) and tracked[a] is not None for a in c0["args"])
                        and OPS.get(c0["op"], ("", ""))[0] == OPS.get(c0["op"], ("", "x"))[1]):
                    # the SAME Command object handed to add() a second time (a pre-built gate applied again):
                    # its indices must be read afresh; only for ops that map each argument type to itself
                    sc["steps"].append(["add_again"])
                    k = nadd
                    nadd += 1
                    ins_, outs_ = OPS[c0["op"]]
                    for j, t in enumerate(outs_):
                        wires.append((["out", k, j], t))
            else:
                for c in cmds:
                    c["md"] = None
                sc["steps"].append(["extend", cmds])
            # indices left on an output the op does not have are given up at once
            for c in cmds:
                for a in c.get("dangling", []) if len(cmds) == 1 else []:
                    if a < len(tracked) and tracked[a] == "?":
                        sc["steps"].append(["untrack", a])
                        tracked[a] = None
    if r.random() < 0.5:
        if r.random() < 0.2:
            # every index given up first: the outputs set from tracked indices are the empty row
            for i, x in enumerate(tracked):
                if x is not None:
                    sc["steps"].append(["untrack", i])
                    tracked[i] = None
            sc["no_live_index"] = True
        sc["steps"].append(["set_tracked_outputs"])
    else:
        outs = []
        for _ in range(r.randint(0, 4)):
            cands_i = [i for i, x in enumerate(tracked) if x is not None]
            holes = [i for i, x in enumerate(tracked) if x is None]
            if r.random() < 0.08:
                outs.append(r.choice(holes) if holes and r.random() < 0.7 else len(tracked) + r.randrange(2))
            elif cands_i and r.random() < 0.6:
                outs.append(r.choice(cands_i))
            elif wires:
                outs.append(r.choice(wires)[0])
        sc["steps"].append(["set_indexed_outputs", outs])
    return sc


_IX: list = []


def ix(a, turn):
    """an index in another spelling: every third one is a member of an IntEnum or a bool (both ARE ints)"""
    if not isinstance(a, int) or isinstance(a, bool) or turn % 3 != 2:
        return a
    if a in (0, 1) and turn % 2:
        return bool(a)
    if not _IX:
        import enum

        _IX.append(enum.IntEnum("Ix", {f"i{k}": k for k in range(64)}))
    return _IX[0](a) if a < 64 else a


def mk_op(cmd):
    from hugr import ops
    from hugr.std.logic import Not
    from vf import hx

    n = cmd["op"]
    if n == "Noop":
        return ops.Noop()
    if n == "Not":
        return Not
    return hx.ext_op(n)


def run_script(ctx, sc, stratum="script"):
    from hugr import tys
    from hugr.build import Dfg, TrackedDfg
    from vf.oracles.observe import diff, generic_path, observe

    T = {"q": tys.Qubit, "b": tys.Bool}
    row = [T[t] for t in sc["tys"]]
    if not sc["track_inputs"] and len(sc["steps"]) % 2:
        td = TrackedDfg(*row)   # "track_inputs: ... Defaults to False"
    else:
        td = TrackedDfg(*row, track_inputs=sc["track_inputs"])
    pd = Dfg(*row)
    # symbolic wire -> (port in tracked hugr, port in plain hugr)
    W = {("in", i): (td.inputs()[i], pd.inputs()[i]) for i in range(len(row))}
    model = [("in", i) for i in range(len(row))] if sc["track_inputs"] else []
    nadd = [0]
    info = {"adds": 0, "mixed": False}

    def bad(kind, locus, exp, obs):
        ctx.disc(None, kind, locus, exp, obs, stratum=stratum, case=sc)

    def key(ref):
        return tuple(ref)

    NODES = {}
    ALLNODES = {}
    uses = [0]

    def tw(ref):
        """The wire handed to the TrackedDfg: every third use of an op's output 0 is the Node handle itself
        (a node is a Wire denoting its first output)."""
        k_ = key(ref)
        uses[0] += 1
        if k_ in NODES and uses[0] % 3 == 0:
            ctx.feat("feature:node-handle-as-wire")
            return NODES[k_]
        if uses[0] % 5 == 4:
            # something that merely implements the Wire protocol (only out_port() says what it is)
            from vf.interp import _as_wire

            ctx.feat("feature:protocol-only-wire")
            return _as_wire(W[k_][0])
        return W[k_][0]

    def check_tracked(step):
        ctx.count("monitor:tracked-list")
        got = list(td.tracked)
        want = [None if m is None else W[m][0] for m in model]
        if len(got) != len(want) or any((g is None) != (w is None) or (g is not None and g.out_port() != w)
                                        for g, w in zip(got, want)):
            bad("tracked-list", step, [repr(w) for w in want], [repr(g) for g in got])

    last = {"cmd": None, "com": None}

    def do_add(cmd, step, via_extend=False, again=None):
        args = cmd["args"]
        untracked = [a for a in args if isinstance(a, int) and not (a < len(model) and model[a] is not None)]
        if any(a < len(model) for a in untracked):
            ctx.feat("feature:add-index-names-freed-hole")
        op_t, op_p = mk_op(cmd), mk_op(cmd)
        targs = [ix(a, step + pos_) if isinstance(a, int) else tw(a) for pos_, a in enumerate(args)]
        if any(type(t_) is not int and isinstance(t_, int) for t_ in targs):
            ctx.feat("feature:index-as-int-subclass")
        ctx.count("monitor:index-error")
        com = again if again is not None else op_t(*targs)
        before = list(com.incoming)
        try:
            if via_extend:
                (n,) = td.extend(com)
            elif cmd.get("md") is not None and again is None:
                n = td.add(com, metadata=dict(cmd["md"]))
            else:
                n = td.add(com)
            got = "ok"
        except IndexError:
            got = "IndexError"
        last["cmd"], last["com"] = cmd, com
        if list(com.incoming) != before:
            # not a violation in itself (the statement is about what gets wired); what matters is decided by the
            # re-use of the same command object in "add_again" steps
            ctx.count("observed:command-modified-by-add")
        want = "IndexError" if untracked else "ok"
        if got != want:
            bad("index-error", [step, args], want, got)
            return False
        if untracked:
            return False
        if any(isinstance(a, int) for a in args) and any(not isinstance(a, int) for a in args):
            info["mixed"] = True
            ctx.feat("feature:mixed-args")
        if cmd.get("md") is not None:
            ctx.feat("feature:metadata")
        pargs = [W[model[a]][1] if isinstance(a, int) else W[key(a)][1] for a in args]
        # the explicit side: add_op(op, *wires) or add(op(*wires)) -- the same thing by two entry points
        use_add = (nadd[0] + len(args)) % 2 == 1
        if use_add:
            ctx.feat("feature:plain-side-through-add")
        if cmd.get("md") is not None and not via_extend and again is None:
            pn = (pd.add(op_p(*pargs), metadata=dict(cmd["md"])) if use_add
                  else pd.add_op(op_p, *pargs, metadata=dict(cmd["md"])))
        else:
            pn = pd.add(op_p(*pargs)) if use_add else pd.add_op(op_p, *pargs)
        k = nadd[0]
        nadd[0] += 1
        info["adds"] += 1
        nout = len(OPS[cmd["op"]][1]) if cmd["op"] != "Noop" else 1
        for j in range(max(nout, len(args))):
            W[("out", k, j)] = (n.out(j), pn.out(j))
        if nout >= 1:
            NODES[("out", k, 0)] = n
        ALLNODES[k] = n
        for pos, a in enumerate(args):
            if isinstance(a, int):
                model[a] = ("out", k, pos)
                if pos > 0:
                    ctx.feat("feature:rebinding-to-other-port")
        rep = cmd.get("repeat")
        if rep is not None and args.count(rep) >= 2:
            # an index named twice: both inputs were wired from the wire tracked before (the HUGR comparison decides
            # that); it is now bound to the node's output at ONE of its positions -- which one is not stated
            ctx.feat("feature:repeated-index")
            cands = [("out", k, pos) for pos, a in enumerate(args) if a == rep]
            cur = td.tracked[rep] if rep < len(td.tracked) else None
            hit = [c for c in cands if cur is not None and cur.out_port() == W[c][0]]
            if not hit:
                bad("repeated-index-rebinding", [step, args], [repr(W[c][0]) for c in cands], repr(cur))
                return False
            model[rep] = hit[0]
        return True

    for si, st in enumerate(sc["steps"]):
        k = st[0]
        if k == "track_wire":
            i = td.track_wire(tw(st[1]))
            if i != len(model):
                bad("track_wire-index", si, len(model), i)
            model.append(key(st[1]))
        elif k == "track_wires":
            ws_ = [tw(w) for w in st[1]]
            # (track_wires takes any Iterable of wires: a list, a tuple, a one-shot generator in turn)
            how_ = (si + len(ws_)) % 3
            ctx.feat(f"feature:track_wires-{['list', 'tuple', 'generator'][how_]}")
            idx = td.track_wires(ws_ if how_ == 0 else tuple(ws_) if how_ == 1 else (w_ for w_ in ws_))
            if idx != list(range(len(model), len(model) + len(st[1]))):
                bad("track_wires-indices", si, list(range(len(model), len(model) + len(st[1]))), idx)
            model.extend(key(w) for w in st[1])
        elif k == "track_node":
            hn = ALLNODES.get(st[1])
            if hn is None:
                model.extend(("out", st[1], j) for j in range(st[2]))
                for j in range(st[2]):
                    td.track_wire(W[("out", st[1], j)][0])
            else:
                ctx.feat("feature:track_wires-node-handle")
                ctx.feat(f"feature:track_wires-node-handle-{min(st[2], 3)}-outputs")
                idx = td.track_wires(hn)
                if idx != list(range(len(model), len(model) + st[2])):
                    bad("track_wires-indices", si, list(range(len(model), len(model) + st[2])), idx)
                model.extend(("out", st[1], j) for j in range(st[2]))
        elif k == "track_inputs":
            idx = td.track_inputs()
            if idx != list(range(len(model), len(model) + len(row))):
                bad("track_inputs-indices", si, "next indices", idx)
            model.extend(("in", i) for i in range(len(row)))
        elif k == "untrack":
            i = st[1]
            ctx.feat("feature:untrack")
            ok = i < len(model) and model[i] is not None
            ctx.count("monitor:index-error")
            try:
                w = td.untrack_wire(i)
                got = "ok"
            except IndexError:
                got = "IndexError"
            if got != ("ok" if ok else "IndexError"):
                bad("untrack-index-error", [si, i], "ok" if ok else "IndexError", got)
            elif ok:
                if w.out_port() != W[model[i]][0]:
                    bad("untrack-returned-wire", [si, i], repr(W[model[i]][0]), repr(w))
                model[i] = None
        elif k == "add":
            do_add(st[1], si)
        elif k == "add_again":
            if last["com"] is None:
                return info
            ctx.feat("feature:command-object-reused")
            do_add(last["cmd"], si, again=last["com"])
        elif k == "extend":
            ctx.feat("feature:extend")
            cmds = st[1]
            base = nadd[0]
            independent = all(isinstance(a, int) or not (a[0] == "out" and a[1] >= base)
                              for c in cmds[1:] for a in c["args"])
            # the tracked indices a command names must be tracked when ITS turn comes: simulate on a copy
            sim, all_tracked = list(model), True
            for c in cmds:
                for a in c["args"]:
                    if isinstance(a, int) and not (a < len(sim) and sim[a] is not None):
                        all_tracked = False
            if len(cmds) >= 2 and independent and all_tracked:
                # ONE extend(...) call for the whole group: later commands see the rebinding done by earlier ones
                ctx.feat("feature:extend-many")
                coms = [mk_op(c)(*[a if isinstance(a, int) else tw(a) for a in c["args"]]) for c in cmds]
                ns = td.extend(*coms)
                if len(ns) != len(cmds):
                    bad("extend-result-length", si, len(cmds), len(ns))
                    return info
                for c, n in zip(cmds, ns):
                    args = c["args"]
                    pargs = [W[model[a]][1] if isinstance(a, int) else W[key(a)][1] for a in args]
                    pn = pd.add_op(mk_op(c), *pargs)
                    kk = nadd[0]
                    nadd[0] += 1
                    info["adds"] += 1
                    nout = len(OPS[c["op"]][1]) if c["op"] != "Noop" else 1
                    for j in range(max(nout, len(args))):
                        W[("out", kk, j)] = (n.out(j), pn.out(j))
                    if nout >= 1:
                        NODES[("out", kk, 0)] = n
                    ALLNODES[kk] = n
                    for pos, a in enumerate(args):
                        if isinstance(a, int):
                            model[a] = ("out", kk, pos)
            else:
                for c in cmds:
                    if not do_add(c, si, via_extend=True):
                        break
        elif k == "set_tracked_outputs":
            ctx.feat("feature:set_tracked_outputs")
            if not any(m is not None for m in model):
                ctx.feat("feature:set_tracked_outputs-without-live-index")
            td.set_tracked_outputs()
            pd.set_outputs(*[W[m][1] for m in model if m is not None])
        elif k == "set_indexed_outputs":
            ctx.feat("feature:set_indexed_outputs")
            outs = st[1]
            untracked = [a for a in outs if isinstance(a, int) and not (a < len(model) and model[a] is not None)]
            if untracked:
                ctx.feat("feature:set_indexed_outputs-untracked-index")
            try:
                td.set_indexed_outputs(*[a if isinstance(a, int) else tw(a) for a in outs])
                got = "ok"
            except IndexError:
                got = "IndexError"
            if got != ("IndexError" if untracked else "ok"):
                bad("set_indexed_outputs-index-error", si, "IndexError" if untracked else "ok", got)
            if not untracked and got == "ok":
                pd.set_outputs(*[W[model[a]][1] if isinstance(a, int) else W[key(a)][1] for a in outs])
            else:
                return info  # outputs not set on either side: nothing more to compare
        check_tracked(si)
    ctx.count("monitor:hugr-equality")
    def obs_(hg):
        try:
            return observe(hg)
        except Exception as e:  # noqa: BLE001
            if type(e).__name__ == "IncompleteOp":
                return None     # (outputs never set: the root operation is still incomplete)
            raise

    a, b = obs_(td.hugr), obs_(pd.hugr)
    if a is None or b is None:
        if (a is None) != (b is None):
            bad("hugr-differs[one side incomplete]", "root operation", "complete on both sides or on neither",
                {"tracked": "incomplete" if a is None else "complete", "explicit": "incomplete" if b is None else "complete"})
        return info
    paths = diff(b, a)
    for m in sorted({generic_path(p) for p, _, _ in paths}):
        ex = [p for p in paths if generic_path(p[0]) == m][0]
        bad(f"hugr-differs[{m}]", ex[0], ex[1], ex[2])
    return info


def run(ctx):
    maxs = ctx.n(14, 30)
    for i in ctx.mine(ctx.n(5000, 150000)):
        r = ctx.rng("script", i)
        sc = gen_script(r, maxs)
        info = ctx.guard("script", sc, run_script, ctx, sc)
        ctx.case("script", sc, bool(info) and info["adds"] >= 3 and info["mixed"])


def replay(ctx, rec):
    run_script(ctx, rec["case"])
