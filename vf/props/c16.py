"""C16 — node handles enumerate exactly their operation's value outputs.

Stratum `index`: exhaustive over n in 0..N, every int / slice in a box, against range(n)
semantics (with the two stated licences).  Stratum `handle`: handles returned by the public
graph / builder calls for ops whose output count is known from the generator's parameters."""

from __future__ import annotations

ID = "C16"
META = {
    "level": "exploration",
    "rule": ("index stratum: case = (n, index expression), every one counts, enumerated exhaustively in the "
             "box; handle stratum: case = builder scenario JSON, non-trivial when the op has >= 2 outputs "
             "or is a container/insert scenario"),
    "required": ["monitor:int-index", "monitor:slice-index", "monitor:iter", "monitor:unknown-count",
                 "monitor:port-eq-hash", "monitor:builder-handle", "feature:op-object-used-before", "feature:call-poly-arity", "feature:recycled-index",
                 "feature:container", "feature:insert", "feature:cfg-exit-via-branch", "feature:cfg-exit-via-branch_exit"],
    "reach": ["hugr.hugr.node_port:Node._index", "hugr.hugr.node_port:Node._normalize_index",
              "hugr.build.dfg:DfBase.add_op"],
    "assumptions": [
        "slices with positive or None step only; bounds in [-n-3, n+3]; n <= 6 (quick) / 9 (thorough)",
        "negative indexing on a handle without a known count is not asserted (not stated)",
    ],
    "nshards": {"quick": 8, "thorough": 16},
}


def outcome(fn):
    try:
        return ("ok", fn())
    except IndexError:
        return ("IndexError", None)
    except ValueError:
        return ("ValueError", None)


def check_index(ctx, n, handle, origin):
    from hugr import OutPort

    node = handle.to_node()
    outs = [OutPort(node, i) for i in range(n)]
    case0 = {"n": n, "origin": origin}
    ctx.count("monitor:iter")
    got = outcome(lambda: list(handle))
    if got != ("ok", outs):
        ctx.disc(None, "iteration", case0, [repr(o) for o in outs], got, stratum="index", case=case0)
    got = outcome(lambda: list(handle.outputs()))
    if got != ("ok", outs):
        ctx.disc(None, "outputs()", case0, [repr(o) for o in outs], got, stratum="index", case=case0)
    lo, hi = -n - 3, n + 3
    for i in range(lo, hi + 1):
        ctx.count("monitor:int-index")
        case = {"n": n, "origin": origin, "int": i}
        exp = outcome(lambda: outs[i]) if -n <= i < n else ("IndexError", None)
        got = outcome(lambda: handle[i])
        ctx.case("index", case, True)
        if got != exp:
            ctx.disc(None, "int-index", case, exp, got, stratum="index", case=case)
    bounds = [None, *range(lo, hi + 1)]
    steps = [None, 1, 2, 3, n + 1]
    for a in bounds:
        for b in bounds:
            for s in steps:
                ctx.count("monitor:slice-index")
                case = {"n": n, "origin": origin, "slice": [a, b, s]}
                ctx.case("index", case, True)
                if (a is not None and a < -n) or (b is not None and b < -n):
                    exp = ("IndexError", None)
                else:
                    exp = ("ok", outs[slice(a, b, s)])
                got = outcome(lambda: list(handle[a:b:s]))
                if got != exp:
                    ctx.disc(None, "slice-index", case, exp, got, stratum="index", case=case)


def check_unknown(ctx, handle):
    from hugr import OutPort

    node = handle.to_node()
    ctx.count("monitor:unknown-count")
    for i in (0, 1, 2, 7, 100):
        got = outcome(lambda: handle[i])
        if got != ("ok", OutPort(node, i)):
            ctx.disc(None, "unknown-count-int", i, repr(OutPort(node, i)), got, stratum="index",
                     case={"unknown": i})
    for what, fn in (("iter", lambda: list(handle)), ("outputs", lambda: list(handle.outputs())),
                     ("open-slice", lambda: list(handle[:])), ("open-slice-from", lambda: list(handle[1:]))):
        got = outcome(fn)
        # iterating must raise ValueError (stated); what a slice of a handle of unknown length raises is not stated:
        # any refusal will do, a result will not
        ok = got[0] == "ValueError" or (what.startswith("open-slice") and got[0] != "ok")
        if not ok:
            ctx.disc(None, "unknown-count-iter", what, "ValueError", got, stratum="index",
                     case={"unknown": what})


def check_ports(ctx):
    from hugr import Hugr, InPort, Node, OutPort, ops, tys

    ctx.count("monitor:port-eq-hash")
    h = Hugr()
    a = h.add_node(ops.Custom("x", tys.FunctionType([], [tys.Bool] * 3)), num_outs=3,
                   metadata={"k": 1})
    variants = [a, Node(a.idx), h.add_node(ops.Custom("y"), num_outs=None).__class__(a.idx)]
    try:
        variants.append(Node(a.idx, {"other": 2}, 7))
    except TypeError:
        pass
    for off in (-1, 0, 2):
        ps = [v.out(off) for v in variants]
        for p in ps:
            if p != ps[0] or hash(p) != hash(ps[0]):
                ctx.disc(None, "port-eq-hash", off, "equal & hash-equal", [repr(p), repr(ps[0])],
                         stratum="index", case={"ports": off})
        qs = [v.inp(off) for v in variants]
        for q in qs:
            if q != qs[0] or hash(q) != hash(qs[0]):
                ctx.disc(None, "port-eq-hash", off, "equal & hash-equal", [repr(q), repr(qs[0])],
                         stratum="index", case={"ports": off})
        if len({*ps}) != 1 or len({*qs}) != 1:
            ctx.disc(None, "port-eq-hash", off, "one set element", len({*ps}), stratum="index",
                     case={"ports": off})
        if OutPort(Node(a.idx), off) == OutPort(Node(a.idx + 1), off) or \
                OutPort(Node(a.idx), off) == OutPort(Node(a.idx), off + 1) or \
                InPort(Node(a.idx), off) == InPort(Node(a.idx), off + 1):
            ctx.disc(None, "port-eq-hash", off, "different ports unequal", "equal", stratum="index",
                     case={"ports": off})
    for v in variants:
        if v.out_port() != OutPort(Node(a.idx), 0):
            ctx.disc(None, "node-as-wire", "out_port", "output 0", repr(v.out_port()), stratum="index",
                     case={"ports": "out_port"})


# ----------------------------------------------------------------------------- builder handles

OPS = ["Noop", "MakeTuple", "UnpackTuple", "Tag", "Not", "DivMod", "H", "CX", "Measure", "Fan3",
       "Nop0", "Swap", "QAlloc", "QFree", "Custom", "CallIndirect", "Some", "Break"]
VIAS = ["add_op", "add", "extend", "tracked"]
KINDS = ["op"] * 6 + ["call-mono", "call-poly", "call-rowpoly", "load", "nested", "cfg", "cond", "loop", "ifelse",
                      "insert_nested", "insert_cfg", "insert_cond", "insert_loop"]


def gen_scenario(r):
    kind = r.choice(KINDS)
    sc = {"kind": kind, "k": r.randint(0, 4), "m": r.randint(0, 3)}
    if r.random() < 0.4:
        # the host HUGR has a freed index (deleted node with another output count) to be recycled
        sc["recycle"] = r.choice([None, 0, 1, 2, 5, 7])
        sc["recycle_on"] = True
    if kind in ("nested", "cfg", "cond", "loop") and r.random() < 0.35:
        # while the container is still open, one of its output ports (possibly beyond the outputs it will end up
        # with) is linked to a scratch node, and the link is deleted again before the outputs are set
        sc["probe"] = r.randint(0, 6)
    if kind.startswith("insert") and r.random() < 0.5:
        sc["root_md"] = True     # the builder that gets inserted carries metadata on its root node
    if kind == "op" and r.random() < 0.3:
        sc["op_md"] = True
    if kind in ("cfg", "insert_cfg"):
        sc["shape"] = r.randrange(3)
        sc["exit_via_branch"] = r.random() < 0.5
    if kind == "op":
        sc["op"] = r.choice(OPS)
        sc["via"] = r.choice(VIAS)
        if sc["op"] in ("UnpackTuple", "CallIndirect", "MakeTuple", "Noop") and r.random() < 0.5:
            sc["reused"] = r.randint(0, 3)
    return sc


def handle_checks(ctx, h, k, sc, what):
    from hugr import OutPort

    ctx.count("monitor:builder-handle")
    node = h.to_node()
    outs = [OutPort(node, i) for i in range(k)]
    got = outcome(lambda: list(h))
    if got != ("ok", outs):
        ctx.disc(None, "handle-outputs", what, k, got, stratum="handle", case=sc)
        return
    for i in range(k):
        if outcome(lambda: h[i]) != ("ok", outs[i]):
            ctx.disc(None, "handle-index", [what, i], repr(outs[i]), outcome(lambda: h[i]),
                     stratum="handle", case=sc)
    if outcome(lambda: h[k])[0] != "IndexError":
        ctx.disc(None, "handle-index-overflow", [what, k], "IndexError", outcome(lambda: h[k]),
                 stratum="handle", case=sc)
    if k and outcome(lambda: h[-1]) != ("ok", outs[-1]):
        ctx.disc(None, "handle-index-negative", what, repr(outs[-1]), outcome(lambda: h[-1]),
                 stratum="handle", case=sc)
    if outcome(lambda: list(h[:])) != ("ok", outs):
        ctx.disc(None, "handle-slice", what, k, outcome(lambda: list(h[:])), stratum="handle", case=sc)
    if h.out_port() != OutPort(node, 0):
        ctx.disc(None, "node-as-wire", what, "output 0", repr(h.out_port()), stratum="handle", case=sc)


def run_scenario(ctx, sc):
    from hugr import ops, tys, val
    from hugr.build import Cfg, Conditional, Dfg, Module, TailLoop, TrackedDfg
    from hugr.std.int import DivMod, int_t
    from hugr.std.logic import Not
    from vf import hx

    kind, k, m = sc["kind"], sc["k"], sc["m"]
    B, Q = tys.Bool, tys.Qubit

    def recycle(hugr):
        if sc.get("recycle_on"):
            ctx.feat("feature:recycled-index")
            kw = {} if sc["recycle"] is None else {"num_outs": sc["recycle"]}
            x = hugr.add_node(ops.Custom("tmp", tys.FunctionType([], [B] * 8)), **kw)
            hugr.delete_node(x)

    if kind == "op":
        name = sc["op"]
        table = {
            "Noop": ([B], lambda: ops.Noop(), 1),
            "MakeTuple": ([B] * k, lambda: ops.MakeTuple(), 1),
            "UnpackTuple": ([tys.Tuple(*([B] * k))], lambda: ops.UnpackTuple(), k),
            "Tag": ([B] * k, lambda: ops.Tag(1, tys.Sum([[Q], [B] * k])), 1),
            "Some": ([B] * k, lambda: ops.Some(*([B] * k)), 1),
            "Break": ([B] * k, lambda: ops.Break(tys.Either([Q], [B] * k)), 1),
            "Not": ([B], lambda: Not, 1),
            "DivMod": ([int_t(5)] * 2, lambda: DivMod, 2),
            "H": ([Q], lambda: hx.ext_op("H"), 1),
            "CX": ([Q, Q], lambda: hx.ext_op("CX"), 2),
            "Measure": ([Q], lambda: hx.ext_op("Measure"), 2),
            "Fan3": ([B], lambda: hx.custom_op("Fan3"), 3),
            "Nop0": ([], lambda: hx.ext_op("Nop0"), 0),
            "Swap": ([B, Q], lambda: hx.custom_op("Swap"), 2),
            "QAlloc": ([], lambda: hx.ext_op("QAlloc"), 1),
            "QFree": ([Q], lambda: hx.ext_op("QFree"), 0),
            "Custom": ([B] * m, lambda: ops.Custom("gen", tys.FunctionType([B] * m, [Q] * k),
                                                   extension="gen.ext"), k),
            "CallIndirect": ([tys.FunctionType([B] * m, [B] * k)] + [B] * m,
                             lambda: ops.CallIndirect(), k),
        }
        ins, mk, nout = table[name]
        via = sc["via"]
        d = TrackedDfg(*ins, track_inputs=True) if via == "tracked" else Dfg(*ins)
        recycle(d.hugr)
        op = mk()
        if sc.get("reused") and name in ("UnpackTuple", "CallIndirect", "MakeTuple", "Noop"):
            # the op object has been used before, on wires of another arity (its types are inferred per use)
            ctx.feat("feature:op-object-used-before")
            k0 = (k + 1 + sc["reused"]) % 5
            ins0 = {"UnpackTuple": [tys.Tuple(*([B] * k0))], "MakeTuple": [B] * k0, "Noop": [Q],
                    "CallIndirect": [tys.FunctionType([B] * m, [B] * k0)] + [B] * m}[name]
            d0 = Dfg(*ins0)
            h0 = d0.add_op(op, *d0.inputs())
            handle_checks(ctx, h0, {"UnpackTuple": k0, "CallIndirect": k0}.get(name, 1), sc, f"first-use({name})")
        wires = d.inputs()
        mdkw = {"metadata": {"c16": 1}} if sc.get("op_md") else {}
        if mdkw:
            ctx.feat("feature:op-added-with-metadata")
        if via == "add_op":
            h = d.add_op(op, *wires, **mdkw)
        elif via == "add":
            h = d.add(ops.Command(op, list(wires)), **mdkw)
        elif via == "extend":
            (h,) = d.extend(ops.Command(op, list(wires)))
        else:
            h = d.add(ops.Command(op, list(range(len(ins)))))
        handle_checks(ctx, h, nout, sc, f"{via}({name})")
        return nout >= 2
    if kind in ("call-mono", "call-poly", "call-rowpoly"):
        mod = Module()
        if kind == "call-mono":
            sig = tys.PolyFuncType([], tys.FunctionType([B] * m, [B] * k))
            inst, targs, nin, nout = None, None, m, k
        elif kind == "call-poly":
            T = tys.Variable(0, tys.TypeBound.Copyable)
            sig = tys.PolyFuncType([tys.TypeTypeParam(tys.TypeBound.Copyable)],
                                   tys.FunctionType([T] * m, [T] * k))
            inst, targs, nin, nout = tys.FunctionType([B] * m, [B] * k), [tys.TypeTypeArg(B)], m, k
        else:
            R = tys.RowVariable(0, tys.TypeBound.Copyable)
            sig = tys.PolyFuncType([tys.ListParam(tys.TypeTypeParam(tys.TypeBound.Copyable))],
                                   tys.FunctionType([R], [R, B]))
            inst = tys.FunctionType([B] * k, [B] * k + [B])
            targs = [tys.SequenceArg([tys.TypeTypeArg(B)] * k)]
            nin, nout = k, k + 1
            ctx.feat("feature:call-poly-arity")
        f = mod.declare_function("callee", sig)
        main = mod.define_function("main", [B] * nin)
        recycle(main.hugr)
        h = main.call(f, *main.inputs(), instantiation=inst, type_args=targs)
        handle_checks(ctx, h, nout, sc, kind)
        return True
    if kind == "load":
        d = Dfg()
        recycle(d.hugr)
        v = val.Tuple(*([val.TRUE] * k))
        h = d.load(v) if m % 2 else d.load(d.add_const(v))
        handle_checks(ctx, h, 1, sc, "load")
        return False
    ctx.feat("feature:container" if not kind.startswith("insert") else "feature:insert")
    outer = Dfg(*([B] * max(k, 1)), tys.Either([B], [B] * k))
    ins = outer.inputs()
    recycle(outer.hugr)
    bwires, sumw = ins[:-1], ins[-1]

    def root_md(b_):
        if sc.get("root_md") and kind.startswith("insert"):
            ctx.feat("feature:inserted-root-carries-metadata")
            b_.hugr[b_.hugr.root].metadata["c16"] = {"k": 1}

    def probe(b_):
        if sc.get("probe") is None:
            return
        ctx.feat("feature:output-port-linked-and-unlinked-before-outputs-set")
        hh = outer.hugr
        scratch = hh.add_node(ops.Custom("scratch", tys.FunctionType([B], []), extension="verif.c16"),
                              outer.parent_node)
        src = b_.to_node().out(sc["probe"])
        hh.add_link(src, scratch.inp(0))
        if sc["probe"] % 2:
            hh.delete_link(src, scratch.inp(0))
        hh.delete_node(scratch)

    if kind in ("nested", "insert_nested"):
        if kind == "nested":
            b = outer.add_nested(*bwires[:k])
            probe(b)
        else:
            b = Dfg(*([B] * k))
        b.set_outputs(*b.inputs(), *b.inputs()[:m if k else 0])
        n = k + (min(m, k) if k else 0)
        root_md(b)
        h = b if kind == "nested" else outer.insert_nested(b, *bwires[:k])
        handle_checks(ctx, h, n, sc, kind)
    elif kind in ("cfg", "insert_cfg"):
        # m outputs from k inputs (m != k in general), the exit reached through either entry point, directly from the
        # entry block or through a second block, by port 0 or port 1 of a two-way branch
        b = outer.add_cfg(*bwires[:k]) if kind == "cfg" else Cfg(*([B] * k))
        if kind == "cfg":
            probe(b)
        shape = sc.get("shape", 0)
        via_branch = bool(sc.get("exit_via_branch"))
        ctx.feat("feature:cfg-exit-via-branch" if via_branch else "feature:cfg-exit-via-branch_exit")

        def to_exit(port):
            if via_branch:
                b.branch(port, b.exit)
            else:
                b.branch_exit(port)

        with b.add_entry() as e:
            src = list(e.inputs()) or [e.load(val.TRUE)]
            outs = [src[i % len(src)] for i in range(m)]
            if shape == 0:
                e.set_single_succ_outputs(*outs)
            elif shape == 1:
                e.set_single_succ_outputs(*src)
            else:
                e.set_block_outputs(e.load(val.TRUE), *outs)
        if shape == 0:
            to_exit(e[0])
        elif shape == 1:
            with b.add_successor(e[0]) as mid:
                msrc = list(mid.inputs())
                mid.set_single_succ_outputs(*[msrc[i % len(msrc)] for i in range(m)])
            to_exit(mid[0])
        else:
            to_exit(e[1])
            to_exit(e[0])
        root_md(b)
        h = b if kind == "cfg" else outer.insert_cfg(b, *bwires[:k])
        handle_checks(ctx, h, m, sc, f"{kind}[shape {shape}, {'branch' if via_branch else 'branch_exit'}]")
    elif kind in ("cond", "insert_cond"):
        st = tys.Either([B], [B] * k)
        b = outer.add_conditional(sumw, *bwires[:m]) if kind == "cond" else Conditional(st, [B] * m)
        if kind == "cond":
            probe(b)
        with b.add_case(0) as c0:
            x = c0.inputs()[0]
            c0.set_outputs(*([x] * k))
        with b.add_case(1) as c1:
            c1.set_outputs(*c1.inputs()[:k])
        root_md(b)
        h = b if kind == "cond" else outer.insert_conditional(b, sumw, *bwires[:m])
        handle_checks(ctx, h, k, sc, kind)
    elif kind == "ifelse":
        # the conditional reached through add_if / add_else: `conditional_node` of either branch builder is the
        # handle of a container whose outputs are set (m outputs from k inputs)
        cw = outer.load(val.TRUE)
        if_ = outer.add_if(cw, *bwires[:k])
        isrc = list(if_.inputs()) or [if_.load(val.TRUE)]
        if_.set_outputs(*[isrc[i % len(isrc)] for i in range(m)])
        else_ = if_.add_else()
        esrc = list(else_.inputs()) or [else_.load(val.FALSE)]
        else_.set_outputs(*[esrc[i % len(esrc)] for i in range(m)])
        handle_checks(ctx, else_.conditional_node, m, sc, "add_else().conditional_node")
        handle_checks(ctx, if_.conditional_node, m, sc, "add_if().conditional_node")
    elif kind in ("loop", "insert_loop"):
        b = (outer.add_tail_loop([bwires[0]], bwires[1:k]) if kind == "loop"
             else TailLoop([B], [B] * max(k - 1, 0)))
        if kind == "loop":
            probe(b)
        j, *rest = b.inputs()
        ctl = b.add_op(ops.Tag(1, tys.Either([B], [B] * m)), *([j] * m))
        b.set_loop_outputs(ctl, *rest)
        n = m + max(k - 1, 0)
        root_md(b)
        h = b if kind == "loop" else outer.insert_tail_loop(b, [bwires[0]], bwires[1:k])
        handle_checks(ctx, h, n, sc, kind)
    return True


def run(ctx):
    from hugr import Hugr, Node, ops, tys

    maxn = ctx.n(6, 9)
    for n in ctx.mine(maxn + 1):
        h = Hugr()
        op = ops.Custom("c16", tys.FunctionType([], [tys.Bool] * n))
        handle = h.add_node(op, num_outs=n)
        ctx.guard("index", {"n": n}, check_index, ctx, n, handle, "add_node")
        # ... also when metadata comes with the count, and when the parent is given
        hm = Hugr()
        withmd = hm.add_node(op, hm.root, num_outs=n, metadata={"k": [1, "v"]})
        ctx.guard("index", {"n": n, "metadata": True}, check_index, ctx, n, withmd, "add_node(metadata=...)")
        # the explicit count is what the handle knows, also where the operation's own signature says otherwise
        for own in (0, n + 2):
            if own != n:
                h3 = Hugr()
                other = h3.add_node(ops.Custom("c16b", tys.FunctionType([], [tys.Bool] * own)), num_outs=n)
                ctx.guard("index", {"n": n, "op_outputs": own}, check_index, ctx, n, other, f"add_node(op with {own})")
        # a handle WITHOUT a count on a recycled index whose freed handle had one
        h4 = Hugr()
        dead4 = h4.add_node(ops.Custom("dead", tys.FunctionType([], [tys.Bool] * n)), num_outs=n)
        h4.delete_node(dead4)
        ctx.guard("index", {"n": n, "recycled-without-count": True}, check_unknown, ctx, h4.add_node(ops.Custom("u")))
        # a handle on a recycled index (the freed handle had another / no output count)
        for stale in (None, 0, n + 2):
            h2 = Hugr()
            kw = {} if stale is None else {"num_outs": stale}
            dead = h2.add_node(ops.Custom("dead", tys.FunctionType([], [tys.Bool] * (n + 2))), **kw)
            h2.delete_node(dead)
            again = h2.add_node(op, num_outs=n)
            ctx.guard("index", {"n": n, "recycled": stale}, check_index, ctx, n, again, f"recycled({stale})")
        try:
            raw = Node(5, {}, n)
        except TypeError:
            raw = None
            ctx.notes.append("Node(idx, metadata, n) constructor form absent")
        if raw is not None:
            ctx.guard("index", {"n": n}, check_index, ctx, n, raw, "Node()")
    ctx.extra["exhaustive_subspace"] = (
        f"n in 0..{maxn}; every int in [-n-3, n+3]; every slice with start, stop in {{None}} U [-n-3, n+3], "
        f"step in {{None,1,2,3,n+1}}")
    if ctx.shard == 0:
        h = Hugr()
        ctx.guard("index", "unknown", check_unknown, ctx, h.add_node(ops.Custom("u")))
        ctx.guard("index", "unknown", check_unknown, ctx, Node(3))
        ctx.guard("index", "ports", check_ports, ctx)
    for i in ctx.mine(ctx.n(3000, 400000)):
        r = ctx.rng("handle", i)
        sc = gen_scenario(r)
        nt = ctx.guard("handle", sc, run_scenario, ctx, sc)
        ctx.case("handle", sc, bool(nt))


def replay(ctx, rec):
    from hugr import Hugr, ops, tys

    case = rec.get("case") or {}
    if rec.get("stratum") in ("program", "tracked"):
        # a handle discrepancy found by the cross-cutting monitor inside C01's program workload
        from vf.props import c01

        c01.replay(ctx, rec)
    elif rec.get("stratum") == "handle":
        run_scenario(ctx, case)
    elif "n" in case:
        n = case["n"]
        h = Hugr()
        check_index(ctx, n, h.add_node(ops.Custom("c16", tys.FunctionType([], [tys.Bool] * n)),
                                       num_outs=n), "add_node")
    else:
        check_ports(ctx)
