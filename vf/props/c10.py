"""C10 — extension definitions round-trip; the bundled standard library matches the spec.

Generated extensions: field-by-field round trip against the generator's descriptor, document
fixed point, owner / runtime-requirement invariant on every OpDef.  Bundled std: byte equality
with specification/std_extensions, each file loads and round-trips, and the typed helpers denote
definitions that exist in the *specification's* files with fitting arguments."""

from __future__ import annotations

import json

ID = "C10"
META = {
    "level": "exploration",
    "rule": ("case = extension descriptor (JSON) or a bundled std file or a helper; distinct by JSON; "
             "non-trivial when the extension has >= 1 TypeDef and >= 1 OpDef"),
    "required": ["monitor:ext-roundtrip", "monitor:ext-vs-descriptor", "monitor:owner-invariant", "monitor:owner-invariant-after-takeover",
                 "monitor:std-byte-equality", "monitor:std-loads", "monitor:helper-denotation",
                 "feature:binary-op", "feature:poly-op", "feature:from-params-typedef", "feature:value"],
    "reach": ["hugr.ext:Extension._to_serial", "hugr.ext:Extension.from_json", "hugr.ext:Extension.add_op_def",
              "hugr._serialization.extension:OpDef.deserialize", "hugr.std:_load_extension"],
    "assumptions": ["extensions without lowering functions", "type depth <= 2 in generated signatures",
                    "runtime_reqs / extension lists are compared as sets (their order is not stable)"],
    "nshards": {"quick": 8, "thorough": 16},
}


def sort_reqs(x):
    """runtime_reqs / extension sets are sets: compare them order-insensitively"""
    if isinstance(x, list):
        return [sort_reqs(v) for v in x]
    if isinstance(x, dict):
        return {k: (sorted(v) if k in ("runtime_reqs", "extensions", "es") and isinstance(v, list)
                    and all(isinstance(i, str) for i in v) else sort_reqs(v)) for k, v in x.items()}
    return x


def check_ext(ctx, e, stratum="extension"):
    from hugr import ext as hext
    from vf.gen.extensions import build_extension
    from vf.gen.types import wire_param, wire_poly
    from vf.gen.values import type_of
    from vf.gen.types import wire_ty
    from vf.oracles import wire

    eager = len(json.dumps(e, default=repr)) % 2 == 0
    if eager:
        ctx.feat("feature:serialized-while-growing")
    x = build_extension(e, eager=eager)
    s1 = x.to_json()
    d1 = json.loads(s1)
    ctx.count("monitor:ext-vs-descriptor")

    def bad(kind, locus, exp, obs):
        ctx.disc(None, kind, locus, exp, obs, stratum=stratum, case=e)

    # ---- the emitted document against the descriptor
    if d1.get("name") != e["name"] or str(d1.get("version")) != e["version"] \
            or sorted(d1.get("runtime_reqs", [])) != sorted(e["reqs"]):
        bad("header", "name/version/runtime_reqs", [e["name"], e["version"], sorted(e["reqs"])],
            [d1.get("name"), d1.get("version"), sorted(d1.get("runtime_reqs", []))])
    if sorted(d1["types"]) != sorted(t["name"] for t in e["types"]):
        bad("types-keys", "types", sorted(t["name"] for t in e["types"]), sorted(d1["types"]))
    for t in e["types"]:
        j = d1["types"].get(t["name"])
        if j is None:
            continue
        want_b = ({"b": "Explicit", "bound": t["bound"][1]} if t["bound"][0] == "explicit"
                  else {"b": "FromParams", "indices": list(t["bound"][1])})
        want = {"extension": e["name"], "name": t["name"], "description": t.get("description", ""),
                "params": [wire_param(p) for p in t["params"]], "bound": want_b}
        if j != want:
            bad("typedef-encoding", t["name"], want, j)
    if sorted(d1["operations"]) != sorted(o["name"] for o in e["ops"]):
        bad("ops-keys", "operations", sorted(o["name"] for o in e["ops"]), sorted(d1["operations"]))
    for o in e["ops"]:
        j = d1["operations"].get(o["name"])
        if j is None:
            continue
        if o["binary"] or o["body"] is None:
            ctx.feat("feature:binary-op")
        if o["params"]:
            ctx.feat("feature:poly-op")
        if j["description"] != o["description"] or (j.get("misc") or {}) != o["misc"] \
                or j["binary"] != (o["body"] is None or o["binary"]) or j["extension"] != e["name"]:
            bad("opdef-fields", o["name"], [o["description"], o["misc"], o["binary"]],
                [j["description"], j.get("misc"), j["binary"]])
        if o["body"] is None:
            if j.get("signature") is not None:
                bad("opdef-signature", o["name"], None, j.get("signature"))
        else:
            want = wire.canon_poly(wire_poly(o["params"], o["body"]))
            got = wire.canon_poly(j["signature"])
            wb, gb = dict(want["body"]), dict(got["body"])
            if e["name"] not in gb["runtime_reqs"]:
                bad("opdef-requires-owner", o["name"], f"{e['name']} in runtime_reqs", gb["runtime_reqs"])
            wb["runtime_reqs"] = sorted(set(wb["runtime_reqs"]) | {e["name"]})
            if {"params": want["params"], "body": wb} != {"params": got["params"], "body": gb}:
                bad("opdef-signature", o["name"], {"params": want["params"], "body": wb}, got)
    for v in e["values"]:
        ctx.feat("feature:value")
        j = d1["values"].get(v["name"])
        if j is None or j["name"] != v["name"] or j["extension"] != e["name"]:
            bad("value-entry", v["name"], v["name"], j)
            continue
        if wire.type_of_value(j["typed_value"]) != wire.canon(wire_ty(type_of(v["val"]))):
            bad("value-type", v["name"], wire_ty(type_of(v["val"])), wire.type_of_value(j["typed_value"]))
    if any(t["bound"][0] == "from" for t in e["types"]):
        ctx.feat("feature:from-params-typedef")
    # ---- round trip
    ctx.count("monitor:ext-roundtrip")
    y = hext.Extension.from_json(s1)
    d2 = json.loads(y.to_json())
    if sort_reqs(d2) != sort_reqs(d1):
        from vf.oracles.observe import diff

        p = diff(sort_reqs(d1), sort_reqs(d2))[0]
        bad("ext-roundtrip-document", p[0], p[1], p[2])
    if y.name != x.name or str(y.version) != str(x.version) or set(y.runtime_reqs) != set(x.runtime_reqs):
        bad("ext-roundtrip-header", "name/version/reqs", [x.name, str(x.version)], [y.name, str(y.version)])
    for name, td in x.types.items():
        t2 = y.types.get(name)
        if t2 is None or t2.name != td.name or t2.description != td.description or t2.params != td.params \
                or t2.bound != td.bound:
            bad("ext-roundtrip-typedef", name, repr(td), repr(t2))
    for name, od in x.operations.items():
        o2 = y.operations.get(name)
        if o2 is None or o2.description != od.description or o2.misc != od.misc \
                or o2.signature.binary != od.signature.binary:
            bad("ext-roundtrip-opdef", name, repr(od), repr(o2))
    for name, v in x.values.items():
        v2 = y.values.get(name)
        if v2 is None or v2.name != v.name or \
                v2.val._to_serial_root().model_dump(mode="json") != v.val._to_serial_root().model_dump(mode="json"):
            bad("ext-roundtrip-value", name, repr(v), repr(v2))
    # ---- a loaded copy annotated in place (misc of one operation) leaves every other operation, and every other
    # copy loaded from the same document, as they were
    if len(x.operations) >= 1:
        ctx.count("monitor:loaded-copies-independent")
        y1 = hext.Extension.from_json(s1)
        names = sorted(y1.operations)
        y1.operations[names[0]].misc["annotated-after-load"] = True
        for other in names[1:]:
            if "annotated-after-load" in y1.operations[other].misc:
                bad("misc-shared-between-operations", other, "untouched", dict(y1.operations[other].misc))
        y2 = hext.Extension.from_json(s1)
        if sort_reqs(json.loads(y2.to_json())) != sort_reqs(d1):
            bad("later-load-affected-by-earlier-copy", "from_json(s) after another copy was annotated", "the document",
                "differs")
        if sort_reqs(json.loads(y.to_json())) != sort_reqs(d1):
            bad("earlier-load-affected-by-later-copy", "the first loaded copy", "the document", "differs")
    # ---- owner invariant
    ctx.count("monitor:owner-invariant")
    for holder in (x, y):
        for name, od in holder.operations.items():
            try:
                owner = od.get_extension()
            except Exception as ex:  # noqa: BLE001
                owner = ex
            if owner is not holder:
                bad("opdef-owner", name, "the holding extension", repr(owner))
            pf = od.signature.poly_func
            if pf is not None and holder.name not in pf.body.runtime_reqs:
                bad("opdef-requires-owner", name, f"{holder.name} in runtime_reqs", list(pf.body.runtime_reqs))
        for name, td in holder.types.items():
            if td.get_extension() is not holder:
                bad("typedef-owner", name, "the holding extension", "other")
    # ---- the same invariant for an extension that takes over operation definitions which already belonged to
    # another one ("Returns: the added operation definition, now associated with the extension"); x is not used
    # after this
    if x.operations:
        from hugr import ext as _ext

        ctx.count("monitor:owner-invariant-after-takeover")
        z = _ext.Extension(e["name"] + ".next", _ext.Version(9, 9, 9))
        for od in list(x.operations.values()):
            ret = z.add_op_def(od)
            if ret is not z.operations.get(od.name):
                bad("takeover-returned-def", od.name, "the definition now held", repr(ret))
        for name, od in z.operations.items():
            try:
                owner = od.get_extension()
            except Exception as ex:  # noqa: BLE001
                owner = ex
            if owner is not z:
                bad("opdef-owner-after-takeover", name, "the extension it was added to", getattr(owner, "name", repr(owner)))
            pf = od.signature.poly_func
            if pf is not None and z.name not in pf.body.runtime_reqs:
                bad("opdef-requires-owner-after-takeover", name, f"{z.name} in runtime_reqs", list(pf.body.runtime_reqs))
        dz = json.loads(z.to_json())
        for name, j in dz["operations"].items():
            if j["extension"] != z.name:
                bad("opdef-document-extension-after-takeover", name, z.name, j["extension"])
        dz2 = json.loads(_ext.Extension.from_json(z.to_json()).to_json())
        if sort_reqs(dz2) != sort_reqs(dz):
            bad("takeover-roundtrip-document", "to_json(from_json(to_json(z)))", "same document", "differs")
        # ---- ... and for definitions that REPLACE one of the same name (an operation defined again): fresh OpDef
        # objects with other signatures added under the names z already holds
        from hugr import tys as _tys

        ctx.count("monitor:owner-invariant-after-redefinition")
        for k_, name in enumerate(sorted(z.operations)):
            new_sig = [_ext.OpDefSig(_tys.FunctionType([_tys.Bool] * (k_ % 3), [_tys.Unit]), binary=False),
                       _ext.OpDefSig(_tys.PolyFuncType([_tys.TypeTypeParam(_tys.TypeBound.Any)],
                                                       _tys.FunctionType([_tys.Variable(0, _tys.TypeBound.Any)], [])), False),
                       _ext.OpDefSig(None, binary=True)][k_ % 3]
            ret = z.add_op_def(_ext.OpDef(name, new_sig, "defined again", {"again": k_}))
            od = z.operations.get(name)
            if ret is not od or od.description != "defined again":
                bad("redefinition-not-held", name, "the new definition", repr(od))
                continue
            if od.get_extension() is not z:
                bad("opdef-owner-after-redefinition", name, z.name, repr(od.get_extension()))
            pf = od.signature.poly_func
            if pf is not None and z.name not in pf.body.runtime_reqs:
                bad("opdef-requires-owner-after-redefinition", name, f"{z.name} in runtime_reqs", list(pf.body.runtime_reqs))
        dr = json.loads(z.to_json())
        dr2 = json.loads(_ext.Extension.from_json(z.to_json()).to_json())
        if sort_reqs(dr2) != sort_reqs(dr):
            from vf.oracles.observe import diff

            pth = diff(sort_reqs(dr), sort_reqs(dr2))[0]
            bad("redefinition-roundtrip-document", pth[0], pth[1], pth[2])


def std_files():
    from vf import env

    root = env.REPO / "specification" / "std_extensions"
    return root, sorted(p for p in root.rglob("*.json"))


def check_std(ctx):
    import pkgutil

    import hugr.std
    from hugr import ext as hext
    from vf import env

    root, files = std_files()
    bundled_root = env.SRC / "hugr" / "std" / "_json_defs"
    bundled = sorted(p.relative_to(bundled_root).as_posix() for p in bundled_root.rglob("*.json"))
    spec = sorted(p.relative_to(root).as_posix() for p in files)
    ctx.count("monitor:std-byte-equality")
    if bundled != spec:
        ctx.disc(None, "std-file-set", "bundled vs specification", spec, bundled, stratum="std", case={"std": "set"})
    for rel in spec:
        ctx.count("monitor:std-byte-equality")
        case = {"std": rel}
        ctx.case("std", case, True)
        want = (root / rel).read_bytes()
        try:
            got = pkgutil.get_data("hugr.std", f"_json_defs/{rel}")
        except Exception as e:  # noqa: BLE001
            got = repr(e).encode()
        if got != want:
            ctx.disc(None, "std-bytes-differ", rel, f"{len(want)} bytes identical to the specification",
                     f"{len(got or b'')} bytes, differ", stratum="std", case=case)
        ctx.count("monitor:std-loads")
        try:
            x = hext.Extension.from_json(want.decode())
            d1 = sort_reqs(json.loads(x.to_json()))
            y = hext.Extension.from_json(x.to_json())
            if sort_reqs(json.loads(y.to_json())) != d1:
                ctx.disc(None, "std-roundtrip", rel, "fixed point", "differs", stratum="std", case=case)
            src = json.loads(want)
            # the re-serialized document is the source document: field by field, up to the spellings the writer is free
            # in (requirement lists as sets with the owner added, empty misc / lower_funcs, defaulted keys)
            ctx.count("monitor:std-document-preserved")
            ns, nd = std_norm(src, src["name"]), std_norm(json.loads(x.to_json()), src["name"])
            if ns != nd:
                from vf.oracles.observe import diff

                pth = diff(ns, nd)[0]
                ctx.disc(None, "std-document-not-preserved", [rel, pth[0]], pth[1], pth[2], stratum="std", case=case)
            # the extension object the package itself loaded at import time is that document too
            import hugr.std as _std
            import importlib

            for modname in ("hugr.std.prelude", "hugr.std.int", "hugr.std.float", "hugr.std.logic",
                            "hugr.std.collections.array", "hugr.std.collections.list",
                            "hugr.std.collections.static_array"):
                mod = importlib.import_module(modname)
                for attr in dir(mod):
                    obj = getattr(mod, attr)
                    if isinstance(obj, hext.Extension) and obj.name == src["name"]:
                        ctx.count("monitor:std-module-object")
                        nm = std_norm(json.loads(obj.to_json()), src["name"])
                        if nm != ns:
                            from vf.oracles.observe import diff

                            pth = diff(ns, nm)[0]
                            ctx.disc(None, "std-module-object-differs", [modname, attr, pth[0]], pth[1], pth[2],
                                     stratum="std", case=case)
            if sorted(src["types"]) != sorted(x.types) or sorted(src["operations"]) != sorted(x.operations):
                ctx.disc(None, "std-load-incomplete", rel, [sorted(src["types"]), sorted(src["operations"])],
                         [sorted(x.types), sorted(x.operations)], stratum="std", case=case)
        except Exception as e:  # noqa: BLE001
            ctx.disc(None, "std-load-raises", rel, "loads", f"{type(e).__name__}: {str(e)[:200]}",
                     stratum="std", case=case)


def std_norm(doc, own):
    """an extension document up to the writer's freedoms: requirement lists as sorted sets without the owner, empty
    `misc` / `lower_funcs` / `description` defaults dropped"""
    def norm(j, key=None):
        if isinstance(j, dict):
            out = {}
            for k, v in j.items():
                if k in ("misc", "lower_funcs") and not v:
                    continue
                if k == "t" and v == "G" and "input" in j and "output" in j:
                    continue    # (the tag of a function type is a defaulted key)
                if k == "t" and v == "Sum" and "s" in j and key == "typ":
                    continue    # (so is the tag of the sum type a sum value carries)
                if k == "runtime_reqs" and isinstance(v, list):
                    out[k] = sorted(set(v) - {own})
                    continue
                out[k] = norm(v, k)
            return out
        if isinstance(j, list):
            return [norm(v) for v in j]
        return j

    return norm(doc)


def check_helpers(ctx):
    """helpers denote definitions that exist in the specification's std files, with fitting args"""
    from hugr import tys, val
    from hugr.std.collections.array import Array, ArrayVal
    from hugr.std.collections.list import List, ListVal
    from hugr.std.collections.static_array import StaticArray, StaticArrayVal
    from hugr.std.float import FLOAT_T, FloatVal
    from hugr.std.int import DivMod, IntVal, _DivModDef, int_t
    from hugr.std.logic import Not
    from hugr.std.prelude import STRING_T, StringVal
    from vf.oracles import wire

    root, files = std_files()
    spec = {}
    for p in files:
        j = json.loads(p.read_text())
        spec[j["name"]] = j

    def dump(t):
        return t._to_serial_root().model_dump(mode="json")

    def type_ok(what, t):
        ctx.count("monitor:helper-denotation")
        j = dump(t)
        case = {"helper": what}
        ctx.case("helper", case, True)
        d = spec.get(j.get("extension"), {}).get("types", {}).get(j.get("id"))
        if j.get("t") != "Opaque" or d is None:
            ctx.disc(None, "helper-type-undefined", what, "a type defined in the std files", j, stratum="helper", case=case)
            return
        ps = d["params"]
        if len(ps) != len(j["args"]) or not all(wire.arg_fits(a, p) for a, p in zip(j["args"], ps)):
            ctx.disc(None, "helper-type-args", what, ps, j["args"], stratum="helper", case=case)

    for w in range(7):
        type_ok(f"int_t({w})", int_t(w))
    type_ok("FLOAT_T", FLOAT_T)
    type_ok("STRING_T", STRING_T)
    for elem in (tys.Bool, tys.Qubit, int_t(3)):
        type_ok("Array", Array(elem, 3))
        type_ok("List", List(elem))
    type_ok("StaticArray", StaticArray(tys.Bool))
    consts = [("IntVal", IntVal(5, 3)), ("FloatVal", FloatVal(1.5)), ("StringVal", StringVal("x")),
              ("ArrayVal", ArrayVal([val.TRUE], tys.Bool)), ("ListVal", ListVal([val.TRUE], tys.Bool)),
              ("StaticArrayVal", StaticArrayVal([val.TRUE], tys.Bool, "n"))]
    for what, v in consts:
        type_ok(what + ".type_()", v.type_())
        ctx.count("monitor:helper-denotation")
        j = dump(v)
        exts = j.get("extensions", [])
        if dump(v.type_()).get("extension") not in exts:
            ctx.disc(None, "helper-const-extension", what, dump(v.type_()).get("extension"), exts,
                     stratum="helper", case={"helper": what})
    ops_ = [("logic.Not", Not), ("int.DivMod", DivMod)] + [(f"int.DivMod({w})", _DivModDef(w)) for w in range(7)]
    from hugr import Node

    for what, op in ops_:
        ctx.count("monitor:helper-denotation")
        case = {"helper": what}
        ctx.case("helper", case, True)
        j = op._to_serial(Node(0)).model_dump(mode="json")
        d = spec.get(j["extension"], {}).get("operations", {}).get(j["name"])
        if d is None:
            ctx.disc(None, "helper-op-undefined", what, "an op defined in the std files", [j["extension"], j["name"]],
                     stratum="helper", case=case)
            continue
        ps = d["signature"]["params"]
        if len(ps) != len(j["args"]) or not all(wire.arg_fits(a, p) for a, p in zip(j["args"], ps)):
            ctx.disc(None, "helper-op-args", what, ps, j["args"], stratum="helper", case=case)
            continue
        body = d["signature"]["body"]
        want = wire.strip_reqs(wire.canon({"t": "G", "input": wire.subst_row(body["input"], j["args"]),
                                           "output": wire.subst_row(body["output"], j["args"])}))
        got = wire.strip_reqs(wire.canon({"t": "G", **j["signature"]}))
        if want != got:
            ctx.disc(None, "helper-op-signature", what, want, got, stratum="helper", case=case)


def check_register_op(ctx):
    """definitions that enter an extension through the `register_op` decorator (the route the std helpers use) are
    held like any other: the extension is their owner and is named among their signature's requirements, and they
    survive the round trip"""
    import hugr.ext as hext
    from hugr import tys
    from semver import Version

    B = tys.Bool
    sigs = {"mono": tys.FunctionType([B], [B, B]), "mono+reqs": tys.FunctionType([B], [], ["other.ext"]),
            "poly": tys.PolyFuncType([tys.TypeTypeParam(tys.TypeBound.Any)],
                                     tys.FunctionType([tys.Variable(0, tys.TypeBound.Any)], [])),
            "opdefsig": hext.OpDefSig(tys.FunctionType([B], [B]), binary=False), "binary": None}
    for k, (how, sig) in enumerate(sigs.items()):
        for named in (True, False):
            ctx.count("monitor:register_op")
            case = {"register_op": how, "named": named}
            ctx.case("register_op", case, True)
            e = hext.Extension(f"reg.ext{k}", Version(0, 1, 0))

            class Registered:
                """doc of the registered class"""

            e.register_op("GivenName" if named else None, sig, misc={"k": 1} if k % 2 else None)(Registered)
            name = "GivenName" if named else "Registered"
            od = e.operations.get(name)
            if od is None or getattr(Registered, "const_op_def", None) is not od:
                ctx.disc(None, "register_op-not-held", name, "held under its name and attached to the class",
                         sorted(e.operations), stratum="register_op", case=case)
                continue
            if od.get_extension() is not e:
                ctx.disc(None, "opdef-owner", name, e.name, repr(od.get_extension()), stratum="register_op", case=case)
            pf = od.signature.poly_func
            if how != "binary" and (pf is None or e.name not in pf.body.runtime_reqs):
                ctx.disc(None, "opdef-requires-owner", name, f"{e.name} in runtime_reqs",
                         None if pf is None else list(pf.body.runtime_reqs), stratum="register_op", case=case)
            if how == "binary" and (pf is not None or not od.signature.binary):
                ctx.disc(None, "opdef-fields", name, "binary, no signature", repr(od.signature),
                         stratum="register_op", case=case)
            d1 = json.loads(e.to_json())
            d2 = json.loads(hext.Extension.from_json(e.to_json()).to_json())
            if sort_reqs(d1) != sort_reqs(d2):
                ctx.disc(None, "ext-roundtrip-document", name, "fixed point", "differs", stratum="register_op", case=case)


def run(ctx):
    from vf.gen.extensions import gen_extension

    if ctx.shard == 0:
        ctx.guard("std", {"std": "all"}, check_std, ctx)
        ctx.guard("helper", {"helper": "all"}, check_helpers, ctx)
        ctx.guard("register_op", {"register_op": "all"}, check_register_op, ctx)
    for i in ctx.mine(ctx.n(1000, 150000)):
        r = ctx.rng("extension", i)
        e = gen_extension(r)
        ctx.case("extension", e, bool(e["types"]) and bool(e["ops"]))
        ctx.guard("extension", e, check_ext, ctx, e)


def replay(ctx, rec):
    st = rec.get("stratum")
    if st == "std":
        check_std(ctx)
    elif st == "helper":
        check_helpers(ctx)
    elif st == "register_op":
        check_register_op(ctx)
    else:
        check_ext(ctx, rec["case"])
