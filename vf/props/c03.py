"""C03 — emitted documents conform to the published wire format.

(a) jsonschema against the *published* strict schema (read from the repo at check time) for
HUGR, package and extension documents; (b) index sanity for any conformant reader; (c) the port
address oracle: the emitted edge multiset must equal the one computed from Hugr.links() and the
wire attributes of the emitted ops (value port k -> k, static input after the value inputs, order
edge on the first port after those), independently of how many ports happen to be connected."""

from __future__ import annotations

import json
from collections import Counter

ID = "C03"
META = {
    "level": "exploration",
    "rule": ("case = C02-style HUGR case, package case or extension descriptor; distinct by JSON; non-trivial as in "
             "C02 (HUGRs), >= 1 module with >= 4 nodes (packages), >= 1 TypeDef and >= 1 OpDef (extensions)"),
    "required": ["monitor:repo-test-documents", "monitor:schema-hugr", "monitor:schema-package", "monitor:schema-extension",
                 "monitor:index-sanity", "monitor:port-address", "feature:holes", "feature:order-link",
                 "feature:order-link-on-partially-connected-node", "feature:static-edge",
                 "feature:order-link-on-static-input-op", "monitor:schema-selftest", "monitor:static-port",
                 "feature:call-arity-change"],
    "reach": ["hugr.hugr.base:Hugr._to_serial", "hugr.hugr.base:Hugr._constrain_offset",
              "hugr.ext:Extension._to_serial", "hugr.package:Package._to_serial"],
    "assumptions": [
        "the published schema file specification/schema/hugr_schema_strict_live.json is the reference "
        "(it holds only $defs; documents are validated against #/$defs/SerialHugr, Package, Extension)",
        "jsonschema validation is sampled in the quick tier (every 4th HUGR document; all packages and extensions)",
        "the port-address clause applies to HUGRs whose links attach only to ports their operations have",
    ],
    "watchdog_s": {"quick": 900, "thorough": 7200},
}

_VALIDATORS = {}


def validators():
    if not _VALIDATORS:
        import jsonschema
        from vf import env

        schema = json.loads((env.REPO / "specification" / "schema" / "hugr_schema_strict_live.json").read_text())
        for name in ("SerialHugr", "Package", "Extension"):
            _VALIDATORS[name] = jsonschema.Draft202012Validator(
                {"$ref": f"#/$defs/{name}", "$defs": schema["$defs"]})
    return _VALIDATORS


def schema_errors(kind, doc):
    v = validators()[kind]
    errs = sorted(v.iter_errors(doc), key=lambda e: list(e.absolute_path))
    out = []
    for e in errs[:3]:
        best = e
        while best.context:
            best = min(best.context, key=lambda c: len(list(c.absolute_path)) * -1)
        out.append({"path": "/".join(map(str, best.absolute_path)), "msg": best.message[:200]})
    return out


def index_sanity(doc):
    out = []
    nodes = doc["nodes"]
    if not nodes or nodes[0]["parent"] != 0:
        out.append(("root", "node 0 is its own parent", nodes[0]["parent"] if nodes else None))
    for i, n in enumerate(nodes[1:], 1):
        p = n["parent"]
        if not (isinstance(p, int) and 0 <= p < i):
            out.append(("parent-listed-earlier", f"node {i}: parent < {i} and != {i}", p))
            break
    for e in doc["edges"]:
        for (n, _off) in e:
            if not (isinstance(n, int) and 0 <= n < len(nodes)):
                out.append(("edge-endpoint-exists", f"< {len(nodes)}", n))
                return out
    md = doc.get("metadata")
    if md is not None and len(md) not in (0, len(nodes)) and len(md) > len(nodes):
        out.append(("metadata-length", f"<= {len(nodes)}", len(md)))
    return out


def port_address(ctx, h, doc):
    """returns (applicable, expected multiset, emitted multiset)"""
    from vf.oracles import wire

    order = [n.idx for n in h]
    ren = {old: new for new, old in enumerate(order)}
    ports = [wire.op_ports(n) for n in doc["nodes"]]
    exp = Counter()
    for s, t in h.links():
        a, b = ren[s.node.idx], ren[t.node.idx]
        so = wire.other_index(ports[a], "out") if s.offset == -1 else s.offset
        to = wire.other_index(ports[b], "in") if t.offset == -1 else t.offset
        if so is None or to is None or (s.offset == -1 and ports[a]["other_out"] != "order") or \
                (t.offset == -1 and ports[b]["other_in"] != "order"):
            return False, None, None
        if wire.port_kind(ports[a], "out", so) is None or wire.port_kind(ports[b], "in", to) is None:
            return False, None, None
        if s.offset != -1 and so == wire.other_index(ports[a], "out") and ports[a]["other_out"] == "order":
            return False, None, None  # a value-addressed link on the ORDER port: outside the clause
        if t.offset != -1 and to == wire.other_index(ports[b], "in") and ports[b]["other_in"] == "order":
            # (a control-flow edge into a block is addressed at the block's control port, offset 0: that is no
            # order port and stays inside the clause)
            return False, None, None
        exp[(a, so, b, to)] += 1
        if s.offset == -1:
            nval = len(ports[a]["out"])
            connected = {x.offset for x, _ in h.links() if x.node.idx == s.node.idx and x.offset >= 0}
            if nval and len(connected) < nval:
                ctx.feat("feature:order-link-on-partially-connected-node")
        if t.offset == -1 and doc["nodes"][b]["op"] in ("Call", "LoadConstant", "LoadFunction"):
            ctx.feat("feature:order-link-on-static-input-op")
        k = wire.port_kind(ports[a], "out", so)
        if isinstance(k, tuple) and k[0] in ("const", "func"):
            ctx.feat("feature:static-edge")
    got = Counter((a, so, b, to) for (a, so), (b, to) in doc["edges"])
    return True, exp, got


def check_hugr_case(ctx, case, stratum, do_schema):
    from vf.oracles.observe import child_before_parent
    from vf.props import c02

    h, info = c02.build(case)
    nodes = list(h)
    if nodes and max(n.idx for n in nodes) + 1 != len(nodes):
        ctx.feat("feature:holes")
    if any(s.offset == -1 for s, _ in h.links()):
        ctx.feat("feature:order-link")
    cbp = child_before_parent(h)
    doc = json.loads(h.to_json())
    ctx.count("monitor:index-sanity")
    for what, exp, obs in index_sanity(doc):
        key = "child-before-parent-after-reuse" if cbp and what == "parent-listed-earlier" else None
        ctx.disc(key, f"index-sanity[{what}]", what, exp, obs, stratum=stratum, case=case)
    if do_schema:
        ctx.count("monitor:schema-hugr")
        for e in schema_errors("SerialHugr", doc):
            ctx.disc(None, "schema-violation[hugr]", e["path"], "valid under the published strict schema",
                     e["msg"], stratum=stratum, case=case)
    if not cbp:
        ok, exp, got = port_address(ctx, h, doc)
        if ok:
            ctx.count("monitor:port-address")
            if exp != got:
                missing = sorted((exp - got).elements())[:4]
                extra = sorted((got - exp).elements())[:4]
                ctx.disc(None, "port-address", "edges", missing, extra, stratum=stratum, case=case)
        else:
            ctx.count("port-address-not-applicable")
    # what the program's statements asked for (argument i -> input i; the function of a call after its arguments),
    # NOT read back from the HUGR: only where the HUGR is exactly what the program built (no history, nothing planted)
    it = info.get("interp")
    if it is not None and not case.get("hist") and not case.get("plant") and not cbp and len(nodes) == max(
            n.idx for n in nodes) + 1:
        ctx.count("monitor:argument-position")
        emitted = Counter((a, so, b, to) for (a, so), (b, to) in doc["edges"])
        for hg, src, node, pos in it.arg_links:
            if hg is h and emitted[(src.node.idx, src.offset, node.idx, pos)] < 1:
                ctx.disc(None, "argument-position", [node.idx, pos],
                         f"edge ({src.node.idx}, {src.offset}) -> ({node.idx}, {pos})",
                         sorted(k for k in emitted if k[2] == node.idx)[:6], stratum=stratum, case=case)
        for hg, fn, node, pos in it.static_links:
            if hg is h and emitted[(fn.idx, 0, node.idx, pos)] < 1:
                ctx.disc(None, "static-port-address", ["call", node.idx],
                         f"edge ({fn.idx}, 0) -> ({node.idx}, {pos})",
                         sorted(k for k in emitted if k[2] == node.idx)[:6], stratum=stratum, case=case)
    # static edges: from a Const / function node to the port right after the value inputs
    if stratum in ("program", "order-heavy") and not cbp:
        from vf.oracles import wire

        ctx.count("monitor:static-port")
        for (a, so), (b, to) in doc["edges"]:
            src, tgt = doc["nodes"][a], doc["nodes"][b]
            if src["op"] in ("Const", "FuncDefn", "FuncDecl") and so == 0:
                pt = wire.op_ports(tgt)
                want = wire.n_value(pt, "in")
                fam = {"Const": "const", "FuncDefn": "func", "FuncDecl": "func"}[src["op"]]
                k = wire.port_kind(pt, "in", to) if to is not None else None
                if to != want or not (isinstance(k, tuple) and k[0] == fam):
                    ctx.disc(None, "static-port-address", [src["op"], tgt["op"]],
                             f"offset {want} (after the {want} value inputs), kind {fam}",
                             {"offset": to, "kind": k[0] if isinstance(k, tuple) else k}, stratum=stratum, case=case)
                if tgt["op"] == "Call" and len(tgt["instantiation"]["input"]) != len(tgt["func_sig"]["body"]["input"]):
                    ctx.feat("feature:call-arity-change")
    info["nodes"] = len(nodes)
    return info, h


def check_package(ctx, case, stratum="package"):
    from hugr.package import Package
    from vf.gen.extensions import build_extension
    from vf.interp import Interp

    mods = [Interp().run(p) for p in case["modules"]]
    exts = [build_extension(e) for e in case["extensions"]]
    pkg = Package(mods, exts)
    doc = json.loads(pkg.to_json())   # the public entry point ...
    if doc != json.loads(pkg._to_serial().model_dump_json()):   # ... writes the serial model unchanged
        ctx.disc(None, "package-to_json-differs", "Package.to_json", "the serial model's JSON", "differs",
                 stratum=stratum, case=case)
    ctx.count("monitor:schema-package")
    for e in schema_errors("Package", doc):
        ctx.disc(None, "schema-violation[package]", e["path"], "valid under the published strict schema",
                 e["msg"], stratum=stratum, case=case)
    if len(doc["modules"]) != len(mods) or len(doc.get("extensions", [])) != len(exts):
        ctx.disc(None, "package-shape", "counts", [len(mods), len(exts)],
                 [len(doc["modules"]), len(doc.get("extensions", []))], stratum=stratum, case=case)
    for m in doc["modules"]:
        for what, exp, obs in index_sanity(m):
            ctx.disc(None, f"index-sanity[{what}]", what, exp, obs, stratum=stratum, case=case)
    return any(len(m["nodes"]) >= 4 for m in doc["modules"])


def check_extension(ctx, e, stratum="extension"):
    from vf.gen.extensions import build_extension

    x = build_extension(e)
    doc = json.loads(x.to_json())
    ctx.count("monitor:schema-extension")
    for err in schema_errors("Extension", doc):
        ctx.disc(None, "schema-violation[extension]", err["path"], "valid under the published strict schema",
                 err["msg"], stratum=stratum, case=e)


def selftest(ctx):
    """the schema monitor must reject a broken document and accept a good one"""
    from hugr import Hugr

    good = json.loads(Hugr().to_json())
    bad = json.loads(json.dumps(good))
    bad["nodes"][0]["op"] = "NoSuchOp"
    bad2 = json.loads(json.dumps(good))
    bad2["unknown_field"] = 1
    if not schema_errors("SerialHugr", good) and schema_errors("SerialHugr", bad) and schema_errors("SerialHugr", bad2):
        ctx.count("monitor:schema-selftest")


def run(ctx):
    from vf.gen.extensions import gen_extension
    from vf.gen.histories import gen_history, gen_history_on
    from vf.gen.prog import gen_program
    from vf.props import c02
    from vf.props.c01 import nontrivial

    if ctx.shard == 0:
        ctx.guard("selftest", None, selftest, ctx)
    if ctx.shard == 1 % ctx.nshards:
        from vf.repo_corpus import documents

        for k, c in enumerate(ctx.guard("repo-doc", None, documents) or []):
            for variant in range(2):
                case = dict(c)
                if variant:
                    case["hist"] = gen_history_on(ctx.rng("repo-doc", k), 12, max_steps=12)
                ctx.count("monitor:repo-test-documents")
                # (the static-port clause presupposes builder-laid static edges: only without the history)
                ctx.guard("repo-doc", case, check_hugr_case, ctx, case, "program+history" if variant else "program", True)
                ctx.case("repo-doc", case, len(c["doc"]["nodes"]) >= 6)
    # operations typed by hand (the kinds the builders usually type from their wires) put into the graph with the plain
    # store calls, SOME of their value ports linked, and order links on both sides: the order edge sits after the value
    # ports of the signature, however few of them are connected
    from vf.props import c06

    for i in ctx.mine(ctx.n(240, 8000)):
        r = ctx.rng("typed-partial", i)
        kind = ["UnpackTuple", "MakeTuple", "CallIndirect", "Noop", "Tag", "Conditional"][i % 6]
        for _ in range(30):
            c = c06.gen_case(r, 1, kind=kind)
            if kind in ("UnpackTuple", "MakeTuple") and len(c["types"]) < 2:
                continue
            break
        sink = {"k": "Custom", "ins": [["bool"], ["bool"]], "outs": [], "args": [], "desc": "", "ext": "verif.sink",
                "opname": "sink"}
        case = {"plant": [{"at": 0, "op": c}, {"at": 0, "op": sink, "num_outs": 1 + i % 3}],
                # (the second planted node is a SINK -- no value outputs -- created with surplus output ports; the last
                # history node is created with MORE output ports than its operation has; nothing is linked to the
                # surplus ports, its order edge still sits right after the operation's value ports)
                # handles: 0 root, 1 the hand-typed op, 2 the sink, 3.. the history's nodes
                "hist": [["add_node", 0, 4, None], ["add_node", 0, 4, None], ["add_link", 1, 0, 3, 0],
                         ["add_link", 4, 0, 1, 0], ["add_order_link", 1, 4], ["add_order_link", 3, 1],
                         ["add_node", 0, 7, None], ["add_order_link", 5, 3], ["add_link", 5, 1, 4, 1],
                         ["add_order_link", 2, 3], ["add_link", 4, 1, 2, 1]]}
        ctx.feat("feature:hand-typed-op-partially-connected")
        info = ctx.guard("typed-partial", case, check_hugr_case, ctx, case, "attr-rich", i % 4 == 0)
        ctx.case("typed-partial", case, True)
    n = ctx.n(1200, 40000)
    every = 4 if ctx.quick else 1
    for i in ctx.mine(n):
        r = ctx.rng("case", i)
        mode = ["program", "program+history", "history", "attr-rich", "order-heavy"][i % 5]
        case = {}
        if mode in ("program", "program+history", "order-heavy"):
            force = ("rowpoly-call",) if i % 3 == 0 else ()
            case["prog"] = gen_program(r, budget=30, kind="module" if force else None, force=force)
        if mode == "program+history":
            case["hist"] = gen_history_on(r, 12, max_steps=15)
        if mode == "order-heavy":
            # order links between arbitrary existing nodes (only those with order ports are kept)
            case["hist"] = [["add_order_link", r.randrange(40), r.randrange(40)] for _ in range(12)]
        if mode == "history":
            case["hist"] = gen_history(r, max_steps=30, metadata=True)
            if (i // 4) % 3 == 0:
                # serializations between deletions and index re-use
                from vf.gen.histories import gen_probe_history

                case["hist"] = gen_probe_history(r)
                ctx.feat("feature:serialized-mid-history")
            elif (i // 4) % 3 == 1:
                from vf.gen.histories import gen_sparse_history

                case["hist"] = gen_sparse_history(r)
                ctx.feat("feature:sparse-survivors")
        if mode == "history" and i % 2:
            case["fnconst"] = r.randint(2, 14)
            ctx.feat("feature:history-beside-function-constant")
        if mode == "attr-rich":
            case["plant"] = c02.gen_plant(r, 4)
            if r.random() < 0.5:
                case["prog"] = gen_program(r, kind="module", budget=15)
            if r.random() < 0.4:
                case["hist"] = gen_history_on(r, 6, max_steps=10)
        if r.random() < 0.4:
            case["md"] = c02.gen_md(r)
        res = ctx.guard(mode, case, check_hugr_case, ctx, case, mode, (i // ctx.nshards) % every == 0)
        nt = False
        if res:
            info, _ = res
            nt = bool(case.get("hist")) and info.get("applied", 0) >= 1
            if case.get("prog") is not None:
                nt = nt or nontrivial(case["prog"], info.get("nodes", 0))
            nt = nt or bool(case.get("plant"))
        ctx.case(mode, case, nt)
    for i in ctx.mine(ctx.n(60, 1500)):
        r = ctx.rng("package", i)
        case = {"modules": [gen_program(r, kind="module", budget=12) for _ in range(r.randint(0, 3))],
                "extensions": [gen_extension(r, name=f"pkg.ext{j}", small=True) for j in range(r.randint(0, 2))]}
        nt = ctx.guard("package", case, check_package, ctx, case)
        ctx.case("package", case, bool(nt))
    for i in ctx.mine(ctx.n(300, 8000)):
        r = ctx.rng("extension", i)
        e = gen_extension(r)
        ctx.guard("extension", e, check_extension, ctx, e)
        ctx.case("extension", e, bool(e["types"]) and bool(e["ops"]))


def replay(ctx, rec):
    st, case = rec.get("stratum"), rec.get("case")
    if st == "package":
        check_package(ctx, case)
    elif st == "extension":
        check_extension(ctx, case)
    else:
        check_hugr_case(ctx, case, st or "program", True)
