"""C13 — builders refuse inconsistent constructions instead of recording them.

Fault injection at the program level: a well-formed generated program is interpreted against the
real builders and exactly one inconsistency from the catalogue is injected at a chosen site (any
nesting depth / position).  Oracle: the documented exception class must be raised by the faulty
call (or, where the statement places it there, at context exit / serialization); completing
silently is a violation, and so is a different exception class where one is documented."""

from __future__ import annotations

import json

ID = "C13"
KINDS = ["foreign-wire", "foreign-wire-cfg", "static-as-value", "funcdefn-as-value", "int-arg",
         "call-non-function", "load-non-function", "incomplete-op-serialize", "case-outputs-disagree",
         "case-index-out-of-range", "case-twice", "ctx-exit-unbuilt", "cond-unbuilt-serialize",
         "mismatched-exit", "cfg-no-exit-serialize", "declared-mismatch", "func-no-outputs-serialize",
         "poly-missing-inst", "poly-arg-count", "dfg-no-outputs-serialize", "loop-no-outputs-serialize",
         "tracked-untracked-index", "tracked-out-of-range-index", "rows-differ-in-type-arguments",
         "static-port-of-another-block"]
META = {
    "level": "exploration",
    "rule": ("case = {program AST, injection kind, site}; distinct by JSON; non-trivial when the program has >= 6 "
             "statements and the injection site is nested (depth >= 1)"),
    "required": ["monitor:injection"] + [f"kind:{k}" for k in KINDS] + ["variant:case-index-negative", "variant:case-index-too-large",
                                                                         "variant:disagree-through-if-else",
                                                                         "variant:exit-through-branch", "variant:foreign-wire-from-root", "variant:order-port-as-value", "variant:unfinished-function-with-declared-outputs",
                                                                         "feature:site-depth-0",
                                                                         "feature:site-depth-1",
                                                                         "feature:site-depth-2+"],
    "reach": ["hugr.build.dfg:DfBase._wire_up_port", "hugr.build.cfg:Block._wire_up_port",
              "hugr.build.cond_loop:Conditional.add_case", "hugr.build.cond_loop:Conditional._update_outputs",
              "hugr.build.cfg:Cfg.branch_exit", "hugr.build.dfg:Function.set_outputs", "hugr.ops:_check_complete",
              "hugr.build.dfg:DfBase._fn_sig", "hugr.build.tracked_dfg:TrackedDfg.tracked_wire"],
    "assumptions": [
        "inside a basic block only 'source outside the enclosing CFG' is injected: the Block builder documents that "
        "relations inside the CFG are left to full validation",
        "the state of the HUGR after a refused call is not judged",
    ],
}


class Stop(Exception):
    """ends the interpretation after a delayed-fault injection; carries the hugr to serialize"""

    def __init__(self, hugr):
        self.hugr = hugr
        LAST["stop"] = self


class Verdict(Exception):
    def __init__(self, ok, expected, observed, where):
        self.ok, self.expected, self.observed, self.where = ok, expected, observed, where


LAST = {"verdict": None, "stop": None, "skip": False}
COUNT: dict = {}   # variants actually injected (reported as features by run_case)


def expect(fn, exc, where):
    """the faulty call itself must raise `exc`.  The verdict is also kept in LAST because the
    exception that carries it may be replaced while unwinding (Conditional.__exit__ raises when
    its context is left with unbuilt cases).

    The statement asks for "an error (the documented one wherever one is documented)".  The dedicated classes
    (ConditionalError, MismatchedExit, NoSiblingAncestor, NotInSameCfg, NoConcreteFunc, IncompleteOp, the IndexError
    of the tracked builder) are documented and demanded exactly.  The plain ValueError refusals are documented nowhere
    (no Raises section, no dedicated class): there ANY exception is a refusal, and a class other than ValueError is
    only counted (COUNT["other-error-class..."])."""
    try:
        fn()
    except Verdict:
        raise
    except exc as e:
        v = Verdict(True, exc.__name__, type(e).__name__, where)
    except Exception as e:  # noqa: BLE001
        if exc is ValueError:
            COUNT[f"other-error-class[{where}:{type(e).__name__}]"] = COUNT.get(
                f"other-error-class[{where}:{type(e).__name__}]", 0) + 1
            v = Verdict(True, "an exception", type(e).__name__, where)
        else:
            v = Verdict(False, exc.__name__, f"{type(e).__name__}: {str(e)[:150]}", where)
    else:
        v = Verdict(False, exc.__name__, "no exception (silently accepted)", where)
    LAST["verdict"] = v
    raise v from None


def consumer(st):
    """The op a refused port is offered to: a type-inferring Noop or (decided by the statement's id, so that a replay
    takes the same one) an op with a fixed signature, which cannot fail by accident on a port without a type: a
    builder that no longer refuses then accepts silently."""
    from hugr import ops
    from hugr.std.logic import Not

    return ops.Noop() if (sum(map(ord, st["id"])) // 3) % 2 else Not


def offer(b, st, port, op=None):
    """(callable, name): the refused wire is handed to the builder through one of its entry points, chosen by the
    statement's id (so that a replay takes the same one) -- a regression confined to one of them must not pass"""
    from hugr import ops

    op = ops.Noop() if op is None else op
    import hashlib

    v = int(hashlib.md5(("offer" + st["id"]).encode()).hexdigest(), 16) % 9   # (spread evenly over the entry points)
    if v >= 6:
        # a container built on its own and inserted with the refused wire among its inputs
        from hugr import tys as _tys
        from hugr.build import Cfg as _Cfg
        from hugr.build import Dfg as _Dfg
        from hugr.build import TailLoop as _TailLoop

        if v == 6:
            d_ = _Dfg(_tys.Bool)
            d_.set_outputs(*d_.inputs())
            return (lambda: b.insert_nested(d_, port)), "insert_nested"
        if v == 7:
            c_ = _Cfg(_tys.Bool)
            with c_.add_entry() as e_:
                e_.set_single_succ_outputs(*e_.inputs())
            c_.branch_exit(e_[0])
            return (lambda: b.insert_cfg(c_, port)), "insert_cfg"
        t_ = _TailLoop([], [_tys.Bool])
        t_.set_loop_outputs(t_.add_op(ops.Tag(1, _tys.Either([], []))), *t_.inputs())
        return (lambda: b.insert_tail_loop(t_, [], [port])), "insert_tail_loop"
    if v == 0:
        return (lambda: b.add_op(op, port)), "add_op"
    if v == 1:
        return (lambda: b.add(op(port))), "add"
    if v == 2:
        return (lambda: b.extend(op(port))), "extend"
    if v == 3:
        return (lambda: b.add_nested(port)), "add_nested"
    if v == 4:
        return (lambda: b.add_op(ops.MakeTuple(), port)), "add_op(MakeTuple)"
    return (lambda: b.add_tail_loop([], [port])), "add_tail_loop"


def sites(prog):
    """enumerate (where, statement-or-function id, depth, extra) injection sites of a program"""
    out = []

    def region(stmts, depth, in_block=False):
        for st in stmts:
            if "id" in st:
                out.append(("region", st["id"], depth, {"in_block": in_block}))
            k = st["s"]
            if k == "dfg":
                out.append(("dfg", st["id"], depth, {}))
                region(st["body"], depth + 1)
            elif k == "loop":
                out.append(("loop", st["id"], depth, {}))
                region(st["body"], depth + 1)
            elif k == "cond":
                out.append(("cond", st["id"], depth, {"mode": st["mode"], "ncases": len(st["cases"])}))
                for c in st["cases"]:
                    region(c["body"], depth + 1)
            elif k == "cfg":
                out.append(("cfg", st["id"], depth, {}))
                for b in st["blocks"]:
                    region(b["body"], depth + 1, in_block=True)
            elif k in ("call", "loadfn"):
                out.append((k, st["id"], depth, {"poly": "inst" in st}))
            elif k == "deffn":
                func(st["func"], depth + 1)

    def func(f, depth):
        out.append(("func", f["id"], depth, {"declared": f.get("declared") is not None}))
        region(f["body"], depth)

    root = prog["root"]
    if root["k"] == "module":
        for d in root["defs"]:
            if d["d"] == "func":
                func(d["func"], 0)
    elif root["k"] == "func":
        func(root["func"], 0)
    else:
        st = root["stmt"]
        region([st], 0)
    return out


APPLICABLE = {
    "region": ["foreign-wire", "foreign-wire-cfg", "static-as-value", "static-port-of-another-block", "funcdefn-as-value", "int-arg",
               "call-non-function", "load-non-function", "incomplete-op-serialize"],
    "cond": ["case-outputs-disagree", "case-index-out-of-range", "case-twice", "ctx-exit-unbuilt",
             "cond-unbuilt-serialize"],
    "cfg": ["mismatched-exit", "cfg-no-exit-serialize"],
    "func": ["declared-mismatch", "func-no-outputs-serialize"],
    "call": ["poly-missing-inst", "poly-arg-count"], "loadfn": ["poly-missing-inst", "poly-arg-count"],
    "dfg": ["dfg-no-outputs-serialize"], "loop": ["loop-no-outputs-serialize"],
}


def make_interp(kind, site):
    from hugr import ops, tys, val
    from hugr.build.cfg import Block
    from hugr.build.cond_loop import ConditionalError
    from hugr.exceptions import MismatchedExit, NoSiblingAncestor, NotInSameCfg
    from hugr.ops import IncompleteOp, NoConcreteFunc
    from vf.interp import Interp

    class FaultInterp(Interp):
        injected = False
        skipped = None

        def ancestors(self, h, n):
            out = []
            p = h[n].parent
            while p is not None:
                out.append(p.idx)
                p = h[p].parent
            return out

        def fault(self, where, st, **kw):
            if self.injected or st.get("id") != site:
                return False
            fn = getattr(self, "inj_" + kind.replace("-", "_"), None)
            hooks = {"cond": ("cond", "cond-ctx", "case"), "func": ("func",), "cfg": ("cfg",),
                     "call": ("call",), "loadfn": ("loadfn",), "dfg": ("dfg",), "loop": ("loop",),
                     "region": ("region",)}
            return fn(where, st, **kw)

        # ---------------------------------------------------------------- region level
        def _foreign(self, b, want_block):
            h = b.hugr
            anc = {b.parent_node.idx, *self.ancestors(h, b.parent_node)}
            is_block = isinstance(b, Block)
            if is_block != want_block:
                return None
            cfg = h[b.parent_node].parent.idx if is_block else None
            for wid, port in self.w.items():
                if self.w.owner.get(wid) != id(h):
                    continue  # wire of another (standalone) hugr
                try:
                    p = h[port.node].parent
                except KeyError:
                    continue
                if p is None or p.idx in anc:
                    continue
                if h.port_type(port) is None:
                    continue
                if is_block:
                    if cfg in self.ancestors(h, port.node):
                        continue  # inside the same CFG: documented as not checked here
                return port
            return None

        def inj_foreign_wire(self, where, st, b=None, **kw):
            if where != "region":
                return False
            if isinstance(b, Block):
                return False
            if sum(map(ord, st["id"])) % 3 == 0:
                # the root node itself as a source: it has no parent, hence no siblings at all
                from hugr import OutPort

                port = OutPort(b.hugr.root, 0)
                COUNT["foreign-wire-from-root"] = COUNT.get("foreign-wire-from-root", 0) + 1
                where_ = "add_op(wire from the root node)"
            else:
                port = self._foreign(b, want_block=False)
                where_ = "add_op"
            if port is None:
                self.skipped = "no foreign wire available"
                return False
            self.injected = True
            fn_, nm_ = offer(b, st, port)
            COUNT["foreign-wire-through-" + nm_] = COUNT.get("foreign-wire-through-" + nm_, 0) + 1
            # (entry points that ask for the wire's type first meet the root's own -- possibly unfinished -- operation
            # before they look for a sibling: any refusal will do for a root-sourced wire there)
            root_typed_first = "root node" in where_ and nm_ in ("add_nested", "add_tail_loop")
            expect(fn_, Exception if root_typed_first else NoSiblingAncestor, where_.replace("add_op", nm_))

        def inj_foreign_wire_cfg(self, where, st, b=None, **kw):
            if where != "region":
                return False
            port = self._foreign(b, want_block=True)
            if port is None:
                self.skipped = "not in a block / no wire outside the CFG"
                return False
            self.injected = True
            fn_, nm_ = offer(b, st, port)
            COUNT["foreign-wire-cfg-through-" + nm_] = COUNT.get("foreign-wire-cfg-through-" + nm_, 0) + 1
            expect(fn_, NotInSameCfg, "Block." + nm_)

        def inj_static_as_value(self, where, st, b=None, **kw):
            if where != "region":
                return False
            self.injected = True
            v = sum(map(ord, st["id"])) % 3
            if v == 0:
                # the state-order port of a sibling node (also of a Call) is not a dataflow port either
                from hugr import OutPort

                sib = [n for n in b.hugr.children(b.parent_node)
                       if _is(b.hugr, n, (ops.Call, ops.LoadConst, ops.Custom, ops.ExtOp, ops.Input))]
                calls = [n for n in sib if _is(b.hugr, n, (ops.Call,))]
                if sib:
                    src = (calls or sib)[-1]
                    COUNT["order-port-as-value"] = COUNT.get("order-port-as-value", 0) + 1
                    expect(lambda: b.add_op(consumer(st), OutPort(src, -1)), ValueError, "add_op(order port)")
                    return
            c = b.add_const(val.TRUE, b.parent_node)
            fn_, nm_ = offer(b, st, c.out(0), consumer(st))
            COUNT["const-port-through-" + nm_] = COUNT.get("const-port-through-" + nm_, 0) + 1
            expect(fn_, ValueError, nm_ + "(const port)")

        def inj_static_port_of_another_block(self, where, st, b=None, **kw):
            # a constant that lives in ANOTHER block of the same CFG: the inter-block path of the Block builder must
            # still refuse a port that carries no value
            if where != "region" or not isinstance(b, Block):
                return False
            cfgn = b.hugr[b.parent_node].parent
            others = [n for n in b.hugr.children(cfgn)
                      if n != b.parent_node and _is(b.hugr, n, (ops.DataflowBlock,))]
            if not others:
                self.skipped = "no other block built yet"
                return False
            self.injected = True
            c = b.hugr.add_const(val.TRUE, others[-1])
            expect(lambda: b.add_op(consumer(st), c.out(0)), ValueError, "add_op(const port of another block)")

        def inj_funcdefn_as_value(self, where, st, b=None, **kw):
            if where != "region":
                return False
            h = b.hugr
            fn = None
            for n in [b.parent_node, *[type(b.parent_node)(i) for i in self.ancestors(h, b.parent_node)]]:
                if isinstance(h[n].op, ops.FuncDefn) and h[n].parent is not None:
                    fn = n
            if fn is None:
                self.skipped = "no enclosing function definition with a parent"
                return False
            # a sibling function is not visible as a value either; use a module-level function node
            cands = [n for n in self.nodes.values() if _is(h, n, (ops.FuncDefn, ops.FuncDecl))
                     and h[n].parent is not None and h[n].parent.idx in {*self.ancestors(h, b.parent_node)}]
            if not cands:
                self.skipped = "no function node in an enclosing region"
                return False
            self.injected = True
            expect(lambda: b.add_op(consumer(st), cands[0].out(0)), ValueError, "add_op(function port)")

        def inj_int_arg(self, where, st, b=None, **kw):
            if where != "region":
                return False
            self.injected = True
            expect(lambda: b.add(ops.Noop()(0)), ValueError, "Dfg.add(int)")

        def _non_function(self, b):
            c = b.add_const(val.TRUE, b.parent_node)
            return c

        def inj_call_non_function(self, where, st, b=None, **kw):
            if where != "region":
                return False
            self.injected = True
            v = sum(map(ord, st["id"])) % 4
            sib = [n for n in b.hugr.children(b.parent_node) if _is(b.hugr, n, (ops.LoadFunc, ops.Call))]
            if v == 0 and not sib and _is(b.hugr, b.hugr.root, (ops.Module,)):
                decl = b.hugr.add_node(ops.FuncDecl("c13_decl", tys.PolyFuncType([], tys.FunctionType.empty())),
                                       b.hugr.root)
                sib = [b.load_function(decl)]
            if v == 0 and sib:
                # a node that merely carries a function SIGNATURE (a LoadFunction or a Call) is not a function
                COUNT["callee-is-load-or-call-node"] = COUNT.get("callee-is-load-or-call-node", 0) + 1
                tgt = sib[-1]
            else:
                tgt = self._non_function(b) if v % 2 else (
                    b.input_node if len(b.inputs()) else self._non_function(b))
            expect(lambda: b.call(tgt), ValueError, "call(non-function)")

        def inj_load_non_function(self, where, st, b=None, **kw):
            if where != "region":
                return False
            self.injected = True
            sib = [n for n in b.hugr.children(b.parent_node) if _is(b.hugr, n, (ops.LoadFunc, ops.Call))]
            if sum(map(ord, st["id"])) % 3 == 0 and sib:
                COUNT["callee-is-load-or-call-node"] = COUNT.get("callee-is-load-or-call-node", 0) + 1
                tgt = sib[-1]
            else:
                tgt = self._non_function(b)
            expect(lambda: b.load_function(tgt), ValueError, "load_function(non-function)")

        def inj_incomplete_op_serialize(self, where, st, b=None, **kw):
            if where != "region":
                return False
            self.injected = True
            v = sum(map(ord, st["id"])) % 6
            COUNT[f"incomplete-kind-{v}"] = COUNT.get(f"incomplete-kind-{v}", 0) + 1
            if v == 0:
                b.hugr.add_node(ops.MakeTuple(), b.parent_node)
            elif v == 1:
                b.hugr.add_node(ops.LoadConst(), b.parent_node)
            elif v == 2:
                b.hugr.add_node(ops.UnpackTuple(), b.parent_node)
            elif v == 3:
                b.hugr.add_node(ops.Noop(), b.parent_node)
            elif v == 4:
                b.hugr.add_node(ops.CallIndirect(), b.parent_node)
            else:
                # a conditional started with add_if whose else branch is never built
                if_ = b.add_if(b.load(val.TRUE))
                if_.set_outputs()
            raise Stop(b.hugr)

        # ---------------------------------------------------------------- conditional
        def inj_case_outputs_disagree(self, where, st, case_b=None, i=None, outs=None, **kw):
            if where != "case" or st["mode"] == "ifelse" and False:
                return False
            order = [1, 0] if st["mode"] == "ifelse" else st["order"]
            if st["mode"] == "ifelse":
                COUNT["disagree-through-if-else"] = COUNT.get("disagree-through-if-else", 0) + 1
            if i == order[0] or len(order) < 2:
                if len(order) < 2:
                    self.skipped = "single-case conditional"
                return False
            self.injected = True
            extra = case_b.load(val.Tuple(val.TRUE, val.Unit, val.TRUE, val.Unit, val.TRUE))
            variant = sum(map(ord, st["id"])) % 3 if outs else 0
            # longer row / shorter row / same length but another type in the last position
            bad_outs = [[*outs, extra], outs[:-1], [*outs[:-1], extra]][variant]
            if variant == 2 and case_b.hugr.port_type(outs[-1].out_port()) is None:
                bad_outs = [*outs, extra]
            expect(lambda: case_b.set_outputs(*bad_outs), ConditionalError, "Case.set_outputs")

        def inj_case_index_out_of_range(self, where, st, c=None, **kw):
            if where != "cond":
                return False
            self.injected = True
            n = len(st["cases"])
            # a case index is a variant tag in [0, n): too large and negative ones are both out of range
            k = [n, n + 1, n + 2, -1, -n, -n - 1][sum(map(ord, st["id"])) % 6]
            self_kind = "negative" if k < 0 else "too-large"
            COUNT[f"case-index-{self_kind}"] = COUNT.get(f"case-index-{self_kind}", 0) + 1
            expect(lambda: c.add_case(k), ConditionalError, f"add_case({self_kind} index)")

        def inj_case_twice(self, where, st, c=None, build_case=None, **kw):
            if where != "cond":
                return False
            self.injected = True
            i = st["order"][0]
            if sum(map(ord, st["id"])) % 2:
                # asked for a second time while the first builder is still open (no outputs set yet)
                first = c.add_case(i)
                COUNT["case-twice-while-open"] = COUNT.get("case-twice-while-open", 0) + 1
                expect(lambda: c.add_case(i), ConditionalError, "add_case(twice, first still open)")
                build_case(first, i)
            else:
                build_case(c.add_case(i), i)
            expect(lambda: c.add_case(i), ConditionalError, "add_case(twice)")

        def inj_ctx_exit_unbuilt(self, where, st, c=None, build_case=None, **kw):
            if where != "cond-ctx":
                if where == "cond" and st["mode"] != "ctx":
                    # use the context manager ourselves
                    self.injected = True

                    def go():
                        with c:
                            for i in st["order"][:-1]:
                                build_case(c.add_case(i), i)

                    expect(go, ConditionalError, "Conditional.__exit__")
                return False
            self.injected = True

            def go2():
                # we are inside `with c:`; build all but one case and leave the context by returning
                for i in st["order"][:-1]:
                    build_case(c.add_case(i), i)
                c.__exit__(None, None, None)

            expect(go2, ConditionalError, "Conditional.__exit__")

        def inj_cond_unbuilt_serialize(self, where, st, c=None, **kw):
            if where != "cond":
                return False
            self.injected = True
            raise Stop(c.hugr)

        # ---------------------------------------------------------------- cfg
        def inj_mismatched_exit(self, where, st, cfg=None, built=None, **kw):
            if where != "cfg":
                return False
            from vf.gen.types import wire_ty
            from vf.oracles import wire as _w

            def crow(row):   # descriptors may differ while denoting the same type (unit vs empty tuple)
                return json.dumps([_w.canon(wire_ty(t)) for t in row], sort_keys=True)

            rows = {b["name"]: crow(b["ins"]) for b in st["blocks"]}
            rows["exit"] = crow(st["out_tys"])
            outs = [(b["name"], i, rows[s]) for b in st["blocks"] for i, s in enumerate(b["succs"])]
            pair = None
            for a in outs:
                for c in outs:
                    if a[2] != c[2]:
                        pair = pair or (a, c)
            if pair is None:
                self.skipped = "all successor rows coincide"
                raise _Skip()
            self.injected = True
            a, c = pair
            # both spellings of a branch to the exit: branch_exit(src) and branch(src, cfg.exit)
            v = sum(map(ord, st["id"])) % 4
            (cfg.branch_exit(built[a[0]][a[1]]) if v & 1 else cfg.branch(built[a[0]][a[1]], cfg.exit))
            if v & 2:
                COUNT["exit-through-branch"] = COUNT.get("exit-through-branch", 0) + 1
                expect(lambda: cfg.branch(built[c[0]][c[1]], cfg.exit), MismatchedExit, "branch(src, exit)")
            else:
                expect(lambda: cfg.branch_exit(built[c[0]][c[1]]), MismatchedExit, "branch_exit")

        def inj_cfg_no_exit_serialize(self, where, st, cfg=None, **kw):
            if where != "cfg":
                return False
            self.injected = True
            raise Stop(cfg.hugr)

        # ---------------------------------------------------------------- functions / calls
        def inj_declared_mismatch(self, where, st, fb=None, outs=None, **kw):
            if where != "func":
                return False
            if st.get("declared") is None:
                self.skipped = "function without declared outputs"
                return False
            self.injected = True
            extra = fb.load(val.Tuple(val.TRUE, val.Unit, val.TRUE, val.Unit, val.TRUE))
            variant = sum(map(ord, st["id"])) % 3 if outs else 0
            bad = [[*outs, extra], outs[:-1], [*outs[:-1], extra]][variant]
            expect(lambda: fb.set_outputs(*bad), ValueError, "Function.set_outputs")

        def inj_func_no_outputs_serialize(self, where, st, fb=None, **kw):
            if where != "func":
                return False
            # (also with outputs declared up front: the declaration completes the FuncDefn, the Output node of the
            # body is still untyped as long as set_outputs was never called)
            if st.get("declared") is not None:
                COUNT["unfinished-function-with-declared-outputs"] = COUNT.get(
                    "unfinished-function-with-declared-outputs", 0) + 1
            self.injected = True
            raise Stop(fb.hugr)

        def inj_poly_missing_inst(self, where, st, b=None, f=None, **kw):
            if where not in ("call", "loadfn") or "inst" not in st:
                self.skipped = "monomorphic callee"
                return False
            self.injected = True
            if where == "call":
                expect(lambda: b.call(f, *self.wires(st["args"])), NoConcreteFunc, "call(poly, no instantiation)")
            expect(lambda: b.load_function(f), NoConcreteFunc, "load_function(poly, no instantiation)")

        def inj_poly_arg_count(self, where, st, b=None, f=None, **kw):
            if where not in ("call", "loadfn") or "inst" not in st:
                self.skipped = "monomorphic callee"
                return False
            self.injected = True
            inst = self._inst(st)
            targs = inst["type_args"]
            bad = [*targs, tys.BoundedNatArg(3)] if sum(map(ord, st["id"])) % 2 else targs[:-1]
            if where == "call":
                expect(lambda: b.call(f, *self.wires(st["args"]), instantiation=inst["instantiation"],
                                      type_args=bad), NoConcreteFunc, "call(poly, wrong arg count)")
            expect(lambda: b.load_function(f, instantiation=inst["instantiation"], type_args=bad),
                   NoConcreteFunc, "load_function(poly, wrong arg count)")

        def inj_dfg_no_outputs_serialize(self, where, st, d=None, **kw):
            if where != "dfg":
                return False
            self.injected = True
            raise Stop(d.hugr)

        def inj_loop_no_outputs_serialize(self, where, st, d=None, **kw):
            if where != "loop":
                return False
            self.injected = True
            raise Stop(d.hugr)

    return FaultInterp()


class _Skip(Exception):
    def __init__(self, *a):
        super().__init__(*a)
        LAST["skip"] = True


def _is(h, n, classes):
    try:
        return isinstance(h[n].op, classes)
    except KeyError:
        return False


def run_case(ctx, case, stratum="inject"):
    from hugr.ops import IncompleteOp

    kind, site, prog = case["kind"], case["site"], case["prog"]
    if kind.startswith("tracked-"):
        return run_tracked(ctx, case)
    if kind == "rows-differ-in-type-arguments":
        return run_same_def(ctx, case)
    it = make_interp(kind, site)
    expected, observed, where, ok = None, None, None, None
    LAST["verdict"] = LAST["stop"] = None
    LAST["skip"] = False
    try:
        try:
            it.run(prog)
        except (Verdict, Stop, _Skip):
            raise
        except Exception:
            # an exception raised while unwinding after the injection replaced ours
            if LAST["verdict"] is not None:
                raise LAST["verdict"] from None
            if LAST["stop"] is not None:
                raise LAST["stop"] from None
            if LAST["skip"]:
                raise _Skip() from None
            raise
        if not it.injected:
            ctx.count("skipped:" + (it.skipped or "site not reached"))
            return None
        ok, expected, observed, where = False, "an exception", "program completed (silently accepted)", "end"
    except Verdict as v:
        ok, expected, observed, where = v.ok, v.expected, v.observed, v.where
    except _Skip:
        ctx.count("skipped:" + (it.skipped or "skip"))
        return None
    except Stop as s:
        from hugr.package import Package

        # every way of serializing: the HUGR's own JSON, the package's JSON, the package's envelope
        routes = (("to_json", lambda: s.hugr.to_json()), ("Package.to_json", lambda: Package([s.hugr], []).to_json()),
                  ("Package.to_bytes", lambda: Package([s.hugr], []).to_bytes()))
        ok, expected, observed, where = True, "IncompleteOp", "IncompleteOp", "to_json"
        for where_, fn_ in routes:
            try:
                fn_()
                res = "serialized (silently accepted)"
            except IncompleteOp:
                continue
            except Exception as e:  # noqa: BLE001
                res = f"{type(e).__name__}: {str(e)[:120]}"
            ok, observed, where = False, res, where_
            break
    ctx.count("monitor:injection")
    ctx.count("kind:" + kind)
    for k2 in list(COUNT):
        ctx.count("variant:" + k2, COUNT.pop(k2))
    if not ok:
        ctx.disc(None, f"not-refused[{kind}]", where, expected, observed, stratum=stratum, case=case)
    return True


def run_same_def(ctx, case):
    """two case / exit / declared rows that differ only in the ARGUMENTS of one extension type (int<2> vs int<3>,
    array<2, bool> vs array<3, bool>, list<bool> vs list<unit>): still a disagreement"""
    from hugr import ops, tys, val
    from hugr.build import Cfg, Conditional, Dfg
    from hugr.build.cond_loop import ConditionalError
    from hugr.exceptions import MismatchedExit
    from hugr.std.collections.array import ArrayVal
    from hugr.std.collections.list import ListVal
    from hugr.std.int import IntVal

    pair = {"int": (IntVal(1, 2), IntVal(1, 3)),
            "array": (ArrayVal([val.TRUE, val.TRUE], tys.Bool), ArrayVal([val.TRUE, val.TRUE, val.TRUE], tys.Bool)),
            "list": (ListVal([], tys.Bool), ListVal([], tys.Unit))}[case["types"]]
    if case["swap"]:
        pair = pair[::-1]
    a, b = pair
    ctx.count("monitor:injection")
    ctx.count("kind:" + case["kind"])
    where = case["where"]
    expected = "ConditionalError" if where == "cond" else "MismatchedExit" if where == "cfg" else "ValueError"
    ctx.count("variant:same-def-" + where)
    try:
        if where == "cond":
            c = Conditional(tys.Bool, [])
            with c.add_case(0) as c0:
                c0.set_outputs(c0.load(a))
            with c.add_case(1) as c1:
                c1.set_outputs(c1.load(b))
        elif where == "cfg":
            cfg = Cfg(tys.Bool)
            with cfg.add_entry() as e:
                e.set_block_outputs(*e.inputs())
            with cfg.add_successor(e[0]) as b0:
                b0.set_single_succ_outputs(b0.load(a))
            with cfg.add_successor(e[1]) as b1:
                b1.set_single_succ_outputs(b1.load(b))
            cfg.branch_exit(b0[0])
            cfg.branch_exit(b1[0])
        elif where in ("polyfunc", "polyfunc-declared-later"):
            # a function WITH type parameters whose outputs are declared (up front, or by declare_outputs)
            from hugr.build import Module

            m = Module()
            tp = [tys.TypeTypeParam(tys.TypeBound.Copyable)]
            if where == "polyfunc":
                f = m.define_function("f", [tys.Variable(0, tys.TypeBound.Copyable)], [a.type_()], tp)
            else:
                f = m.define_function("f", [tys.Variable(0, tys.TypeBound.Copyable)], None, tp)
                f.declare_outputs([a.type_()])
            f.set_outputs(f.load(b))
        else:
            from hugr.build import Module

            m = Module()
            f = m.define_function("f", [], [a.type_()])
            f.set_outputs(f.load(b))
        observed = "accepted"
    except ConditionalError:
        observed = "ConditionalError"
    except MismatchedExit:
        observed = "MismatchedExit"
    except ValueError:
        observed = "ValueError"
    if observed != expected:
        ctx.disc(None, f"not-refused[{case['kind']}]", [where, case["types"]], expected, observed, stratum="inject",
                 case=case)
    return True


def run_tracked(ctx, case):
    from hugr import ops, tys
    from hugr.build import TrackedDfg

    kind = case["kind"]
    n = case["n"]
    td = TrackedDfg(*([tys.Bool] * n), track_inputs=True)
    for _ in range(case.get("prefix", 0)):
        td.add(ops.Noop()(0)) if n else None
    if kind == "tracked-untracked-index":
        if n == 0:
            return None
        td.untrack_wire(n - 1)
        idx = n - 1
    else:
        idx = n + case.get("over", 0)
    ctx.count("monitor:injection")
    ctx.count("kind:" + kind)
    which = case.get("api", 0) % 3
    try:
        if which == 0:
            td.add(ops.Noop()(idx))
        elif which == 1:
            td.set_indexed_outputs(idx)
        else:
            td.untrack_wire(idx)
        got = "no exception (silently accepted)"
    except IndexError:
        return True
    except Exception as e:  # noqa: BLE001
        got = f"{type(e).__name__}: {str(e)[:100]}"
    ctx.disc(None, f"not-refused[{kind}]", ["add", "set_indexed_outputs", "untrack_wire"][which], "IndexError", got,
             stratum="inject", case=case)
    return True


def run(ctx):
    from vf.gen.prog import gen_program

    n = ctx.n(3000, 100000)
    for i in ctx.mine(n):
        r = ctx.rng("inject", i)
        kind = KINDS[i % len(KINDS)]
        if kind == "rows-differ-in-type-arguments":
            case = {"kind": kind, "where": r.choice(["cond", "cfg", "func", "polyfunc", "polyfunc-declared-later"]),
                    "types": r.choice(["int", "array", "list"]),
                    "swap": r.random() < 0.5, "site": None, "prog": None}
            ctx.guard("inject", case, run_case, ctx, case)
            ctx.case("inject", case, True)
            continue
        if kind.startswith("tracked-"):
            case = {"kind": kind, "n": r.randint(0, 5), "prefix": r.randint(0, 3), "over": r.randint(0, 3),
                    "api": r.randrange(3), "site": None, "prog": None}
            ctx.guard("inject", case, run_case, ctx, case)
            ctx.case("inject", case, case["n"] >= 2)
            continue
        where = [w for w, ks in APPLICABLE.items() if kind in ks]
        for attempt in range(12):
            want_kind = {"mismatched-exit": "cfg", "cfg-no-exit-serialize": "cfg", "foreign-wire-cfg": "cfg",
                         "static-port-of-another-block": "cfg"}.get(kind)
            p = gen_program(r, kind=want_kind if want_kind and r.random() < 0.5 else None, budget=30)
            ss = [s for s in sites(p) if s[0] in where]
            if kind in ("poly-missing-inst", "poly-arg-count"):
                ss = [s for s in ss if s[3].get("poly")]
            if kind == "declared-mismatch":
                ss = [s for s in ss if s[3].get("declared")]
            # (func-no-outputs-serialize: also functions whose outputs were declared up front — their Output node is
            # still untyped when set_outputs was never called)
            if kind in ("foreign-wire-cfg", "static-port-of-another-block"):
                ss = [s for s in ss if s[3].get("in_block")]
            if kind in ("case-outputs-disagree",):
                ss = [s for s in ss if s[3].get("ncases", 0) >= 2]
            if kind in ("case-twice", "case-index-out-of-range", "ctx-exit-unbuilt", "cond-unbuilt-serialize"):
                ss = [s for s in ss if s[3].get("mode") != "ifelse"]
            if kind == "ctx-exit-unbuilt":
                ss = [s for s in ss if s[3].get("ncases", 0) >= 1]
            if not ss:
                continue
            # prefer late and deep sites so that there is context before the injection
            s = r.choice(ss[len(ss) // 3:]) if r.random() < 0.6 else r.choice(ss)
            case = {"kind": kind, "site": s[1], "depth": s[2], "prog": p}
            res = ctx.guard("inject", case, run_case, ctx, case)
            if res:
                ctx.feat(f"feature:site-depth-{s[2] if s[2] < 2 else '2+'}")
                ctx.case("inject", case, p["n_stmts"] >= 6 and s[2] >= 1)
                break


def replay(ctx, rec):
    run_case(ctx, rec["case"])
