"""C19 — shot results convert to register bitstrings by the documented convention.

Reference model: replay entries in order as writes.  Workload: generated shots that
interleave whole-register and indexed writes to the same register, bools, non-bits,
look-alike tags; multi-shot results with missing/extra registers and differing lengths
under all four strict-flag combinations; nested lists for collation."""

from __future__ import annotations

import json
import re
from collections import Counter

ID = "C19"
META = {
    "level": "exploration",
    "rule": ("case = one shot (list of [tag, value]) or one multi-shot result with strict flags; "
             "distinct by JSON; non-trivial when some register is written >= 2 times with >= 1 "
             "indexed write (shots), or when shots differ in register sets/lengths (results)"),
    "required": ["monitor:shot-bits", "monitor:shot-object-reused", "monitor:bitstrings", "monitor:counts", "monitor:collated",
                 "expect:ValueError", "expect:value", "monitor:as_dict", "monitor:ctor-iterables", "monitor:zero-shots",
                 "monitor:result-object-changed", "monitor:collated-shots"],
    "reach": ["hugr.qsystem.result:QsysShot.to_register_bits",
              "hugr.qsystem.result:QsysResult.register_bitstrings",
              "hugr.qsystem.result:QsysResult.collated_counts"],
    "assumptions": [
        "tags without trailing newline; floats 0.0/1.0 not generated (bit-ness of floats not stated)",
        "key order of returned dicts and tag order inside collated keys are not compared",
    ],
    "nshards": {"quick": 8, "thorough": 16},
}

PAT = re.compile(r"([a-z][\w_]*)\[(\d+)\]")
TAGS = ["a", "b", "a[0]", "a[1]", "a[3]", "b[2]", "c_1[0]", "A[0]", "a[x]", "a[1]x", "a[01]",
        "aB9_[2]", "b[0]", "[1]", "a[-1]", "a [1]",
        # word characters and digits are not only the ASCII ones
        "aé[1]", "aé", "bψ_[0]", "a[٣]", "größe[2]", "a[1٢]",
        # first characters other than a lower-case letter, empty / double / two-digit indices
        "_a[0]", "9a[1]", "a[]", "a[1][2]", "a[10]", "b[12]", "Ab[0]", "a_[0]", "a9[1]"]
BITS = [0, 1, True, False]
NONBITS = [2, -1, 0.5, "1", None, [0, 2], [[0]], "0", 3, [1, "1"], [None],
           # tuples (written {"tup": [...]} in the recorded case): neither a bit nor a list of bits
           {"tup": [0, 1]}, {"tup": []}, {"tup": [1]}, [0, {"tup": [1, 0]}]]


def real(v):
    """the value a recorded case stands for"""
    if isinstance(v, dict) and "tup" in v:
        return tuple(real(x) for x in v["tup"])
    if isinstance(v, list):
        return [real(x) for x in v]
    return v


class NotBit(Exception):
    pass


def bit(x):
    if isinstance(x, bool):
        return "1" if x else "0"
    if isinstance(x, int) and x in (0, 1):
        return str(x)
    raise NotBit(x)


def model_bits(entries):
    regs: dict[str, list[str]] = {}
    for tag, v in entries:
        m = PAT.fullmatch(tag)
        if m:
            name, n = m.group(1), int(m.group(2))
            b = bit(v)
            cur = regs.setdefault(name, [])
            if len(cur) < n + 1:
                cur.extend(["0"] * (n + 1 - len(cur)))
            cur[n] = b
        elif isinstance(v, list):
            regs[tag] = [bit(x) for x in v]
        else:
            regs[tag] = [bit(v)]
    return {r: "".join(bs) for r, bs in regs.items()}


def flatten(v):
    if isinstance(v, list):
        for x in v:
            yield from flatten(x)
    else:
        yield v


def model_collate(entries):
    d: dict[str, str] = {}
    for tag, v in entries:
        d[tag] = d.get(tag, "") + "".join(bit(x) for x in flatten(v))
    return frozenset(d.items())


def outcome(fn):
    try:
        return ("value", fn())
    except ValueError as e:
        return ("ValueError", None)
    except NotBit:
        return ("ValueError", None)


def gen_value(r, indexed: bool, bad_p: float):
    if r.random() < bad_p:
        return r.choice(NONBITS)
    if indexed or r.random() < 0.4:
        return r.choice(BITS)
    return [r.choice(BITS) for _ in range(r.randint(0, 4))]


def gen_shot(r, bad_p=0.06, regs=None):
    tags = TAGS if regs is None else regs
    n = r.randint(0, 7)
    out = []
    focus = r.choice(["a", "b"])
    for _ in range(n):
        if r.random() < 0.6:
            tag = r.choice([t for t in tags if t.startswith(focus)] or tags)
        else:
            tag = r.choice(tags)
        out.append([tag, gen_value(r, bool(PAT.fullmatch(tag)), bad_p)])
    return out


def shot_nontrivial(entries):
    per: dict[str, list[bool]] = {}
    for tag, _ in entries:
        m = PAT.fullmatch(tag)
        per.setdefault(m.group(1) if m else tag, []).append(bool(m))
    return any(len(v) >= 2 and any(v) for v in per.values())


def check_shot(ctx, entries, stratum="shot"):
    from hugr.qsystem.result import QsysShot

    ents = [(t, real(v)) for t, v in entries]
    exp = outcome(lambda: model_bits(ents))
    obs = outcome(lambda: QsysShot(ents).to_register_bits())
    ctx.count("monitor:shot-bits")
    ctx.count("expect:" + exp[0])
    if exp != obs:
        ctx.disc(None, "to_register_bits", "shot", exp, obs, stratum=stratum, case=entries)
    elif obs[0] == "value":
        bad = [s for s in obs[1].values() if set(s) - {"0", "1"} or not isinstance(s, str)]
        if bad:
            ctx.disc(None, "non-bit-character", "shot", "only 0/1", bad, stratum=stratum, case=entries)
    # the documented dictionary view: per tag the LAST value written
    ctx.count("monitor:as_dict")
    wantd = {}
    for t, v in ents:
        wantd[t] = v
    gotd = QsysShot(ents).as_dict()
    if gotd != wantd or [type(x) for x in gotd.values()] != [type(x) for x in wantd.values()]:
        ctx.disc(None, "as_dict", "shot", wantd, gotd, stratum=stratum, case=entries)
    # the constructor takes any iterable and keeps its own list: a tuple, a one-shot generator, and a list the
    # caller goes on editing afterwards all give the shot the entries they held at construction
    ctx.count("monitor:ctor-iterables")
    mine = list(ents)
    for how, shx in (("tuple", QsysShot(tuple(ents))), ("generator", QsysShot(e for e in ents)),
                     ("list-edited-later", QsysShot(mine))):
        if how == "list-edited-later":
            mine.append(("zz_late", 1))
            mine.reverse()
        gotx = outcome(shx.to_register_bits)
        if gotx != exp:
            ctx.disc(None, "ctor-iterable", how, exp, gotx, stratum=stratum, case=entries)
    # append() route must agree with the constructor route
    sh = QsysShot()
    for t, v in ents:
        sh.append(t, v)
    obs2 = outcome(sh.to_register_bits)
    if obs2 != obs:
        ctx.disc(None, "append-vs-ctor", "shot", obs, obs2, stratum=stratum, case=entries)
    # the SAME shot object asked again after its entries changed (same number of entries), and after the caller
    # edited the dict it got back: every answer is a replay of the entries the shot holds NOW
    if ents:
        ctx.count("monitor:shot-object-reused")
        if obs2[0] == "value":
            obs2[1]["zz_caller_edit"] = "x"
            for k in list(obs2[1]):
                obs2[1][k] = obs2[1][k] + "1"
        changed = list(reversed(ents)) if len(ents) > 1 else [(ents[0][0], 2)]
        sh.entries[:] = changed
        want3 = outcome(lambda: model_bits(changed))
        got3 = outcome(sh.to_register_bits)
        if got3 != want3:
            ctx.disc(None, "shot-object-reused", "entries replaced in place, converted again", want3, got3,
                     stratum=stratum, case=entries)
        sh.entries[:] = ents
        got4 = outcome(sh.to_register_bits)
        if got4 != exp:
            ctx.disc(None, "shot-object-reused", "entries restored, converted again", exp, got4,
                     stratum=stratum, case=entries)


def gen_result(r):
    nshots = r.randint(1, 6)
    mode = r.random()
    shots = []
    if mode < 0.45:
        # same skeleton, perturbed: missing/extra registers, differing lengths
        base = gen_shot(r, bad_p=0.0)
        for i in range(nshots):
            s = [list(e) for e in base]
            p = r.random()
            if p < 0.25 and s:
                del s[r.randrange(len(s))]
            elif p < 0.5:
                s.append([r.choice(["z", "z[1]", "b", "y[0]"]), r.choice(BITS)])
            elif p < 0.7 and s:
                j = r.randrange(len(s))
                if isinstance(s[j][1], list):
                    s[j][1] = s[j][1] + [r.choice(BITS)]
            for e in s:
                if not isinstance(e[1], list) and r.random() < 0.5:
                    e[1] = r.choice(BITS)
            if r.random() < 0.05:
                s.append(["a", r.choice(NONBITS)])
            shots.append(s)
    else:
        shots = [gen_shot(r, bad_p=0.03) for _ in range(nshots)]
    out = {"shots": shots, "strict_names": r.random() < 0.5, "strict_lengths": r.random() < 0.5}
    if r.random() < 0.12 and shots:
        # a shot repeated with its bits written as floats (equal under ==, not the same values)
        j = r.randrange(len(shots))
        twin = [[t, (float(v) if isinstance(v, (bool, int)) else [float(x) if isinstance(x, (bool, int)) else x for x in v]
                     if isinstance(v, list) else v)] for t, v in shots[j]]
        shots.insert(j + 1, twin)
        out["floats"] = True
    return out


def nest(r, v):
    if isinstance(v, list) and r.random() < 0.4:
        return [nest(r, x) if r.random() < 0.3 else ([x] if r.random() < 0.3 else x) for x in v]
    return v


def model_bitstrings(shots, strict_names, strict_lengths):
    per = [model_bits(s) for s in shots]
    out: dict[str, list[str]] = {}
    for d in per:
        for reg, s in d.items():
            out.setdefault(reg, []).append(s)
    if strict_names and any(set(d) != set(per[0]) for d in per):
        raise NotBit("names")
    if strict_lengths and any(len({len(s) for s in lst}) > 1 for lst in out.values()):
        raise NotBit("lengths")
    return out


def check_result(ctx, case, stratum="result"):
    from hugr.qsystem.result import QsysResult, QsysShot

    shots = [[(t, real(v)) for t, v in s] for s in case["shots"]]
    sn, sl = case["strict_names"], case["strict_lengths"]
    if case.get("floats"):
        # values 1.0 / 0.0 (whether they are bits is not stated): what IS stated is that the strings of a result are the
        # per-shot strings -- a shot that is refused on its own cannot be accepted because of its neighbours, and vice versa
        ctx.count("monitor:multi-shot-consistency")
        singles = [outcome(lambda s_=s_: QsysShot(s_).to_register_bits()) for s_ in shots]
        multi = outcome(lambda: QsysResult(shots).register_bitstrings())
        if any(x_[0] == "ValueError" for x_ in singles) != (multi[0] == "ValueError"):
            ctx.disc(None, "multi-shot-vs-single-shot", "register_bitstrings()", [x_[0] for x_ in singles], multi[0],
                     stratum=stratum, case=case)
        return
    mk = lambda: QsysResult([QsysShot(s) if i % 2 else s for i, s in enumerate(shots)])  # noqa: E731
    exp = outcome(lambda: model_bitstrings(shots, sn, sl))
    obs = outcome(lambda: mk().register_bitstrings(strict_names=sn, strict_lengths=sl))
    ctx.count("monitor:bitstrings")
    ctx.count("expect:" + exp[0])
    if exp != obs:
        ctx.disc(None, "register_bitstrings", {"strict_names": sn, "strict_lengths": sl}, exp, obs,
                 stratum=stratum, case=case)
    expc = ("value", {k: Counter(v) for k, v in exp[1].items()}) if exp[0] == "value" else exp
    obsc = outcome(lambda: mk().register_counts(strict_names=sn, strict_lengths=sl))
    ctx.count("monitor:counts")
    if expc != obsc:
        ctx.disc(None, "register_counts", {"strict_names": sn, "strict_lengths": sl}, expc, obsc,
                 stratum=stratum, case=case)
    # defaults are non-strict
    expd = outcome(lambda: model_bitstrings(shots, False, False))
    obsd = outcome(lambda: mk().register_bitstrings())
    if expd != obsd:
        ctx.disc(None, "register_bitstrings-default", "defaults", expd, obsd, stratum=stratum, case=case)
    expcd = ("value", {k: Counter(v) for k, v in expd[1].items()}) if expd[0] == "value" else expd
    obscd = outcome(lambda: mk().register_counts())
    if expcd != obscd:
        ctx.disc(None, "register_counts-default", "defaults", expcd, obscd, stratum=stratum, case=case)
    # the constructor takes any iterable of shots / entry iterables
    obsg = outcome(lambda: QsysResult(tuple(s) for s in shots).register_bitstrings(strict_names=sn, strict_lengths=sl))
    if obsg != exp:
        ctx.disc(None, "register_bitstrings[generator of tuples]", {"strict_names": sn, "strict_lengths": sl}, exp, obsg,
                 stratum=stratum, case=case)
    # ONE result object asked, CHANGED (a shot appended / the first shot's entries replaced) and asked again: every
    # answer is about the shots it holds now
    if shots:
        ctx.count("monitor:result-object-changed")
        R2 = mk()
        outcome(lambda: R2.register_bitstrings(strict_names=sn, strict_lengths=sl))
        outcome(lambda: R2.register_counts())
        extra = [("a", 1), ("zz_new[2]", True)]
        R2.results.append(QsysShot(extra))
        R2.results[0].entries[:] = list(reversed(shots[0]))
        shots2 = [list(reversed(shots[0])), *shots[1:], extra]
        want2 = outcome(lambda: model_bitstrings(shots2, sn, sl))
        got2 = outcome(lambda: R2.register_bitstrings(strict_names=sn, strict_lengths=sl))
        if got2 != want2:
            ctx.disc(None, "result-object-changed", {"strict_names": sn, "strict_lengths": sl}, want2, got2,
                     stratum=stratum, case=case)
        want2c = outcome(lambda: Counter(model_collate(s2) for s2 in shots2))
        got2c = outcome(lambda: Counter(frozenset(k) for k in R2.collated_counts().elements()))
        if all(not isinstance(v, list) or all(not isinstance(x, list) for x in v) for s2 in shots2 for _, v in s2) \
                and got2c != want2c:
            ctx.disc(None, "result-object-changed[collated]", "collated_counts", want2c, got2c, stratum=stratum, case=case)
    # ONE result object asked several times, with changing options: every answer as from a fresh object
    R = mk()
    ctx.count("monitor:result-object-reused")
    for what, a, b, want in (("bitstrings", sn, sl, exp), ("counts", sn, sl, expc), ("bitstrings", False, False, expd),
                             ("counts", sn, sl, expc), ("bitstrings", sn, sl, exp)):
        got = outcome(lambda: getattr(R, "register_" + what)(strict_names=a, strict_lengths=b))
        if got != want:
            ctx.disc(None, "result-object-reused", [what, a, b], want, got, stratum=stratum, case=case)


def check_collated(ctx, case, stratum="collate"):
    from hugr.qsystem.result import QsysResult

    shots = [[(t, real(v)) for t, v in s] for s in case["shots"]]
    if case.get("alias"):
        # equal list values of a shot are ONE list object (a result row reported again, a shared nested row)
        ctx.feat("feature:aliased-list-values")

        def share(v, pool):
            if isinstance(v, list):
                v = [share(x, pool) for x in v]
                return pool.setdefault(json.dumps(v), v)
            return v

        shots = [(lambda pool: [(t, share(v, pool)) for t, v in s])({}) for s in shots]
    exp = outcome(lambda: Counter(model_collate(s) for s in shots))
    obs = outcome(lambda: Counter(frozenset(k) for k in QsysResult(shots).collated_counts().elements()))
    ctx.count("monitor:collated")
    if exp != obs:
        ctx.disc(None, "collated_counts", "result", exp, obs, stratum=stratum, case=case)
    if obs[0] == "value":
        # a key is a tuple of (tag, bitstring) pairs, one per tag of the shot
        for key in QsysResult(shots).collated_counts():
            if not (isinstance(key, tuple) and all(isinstance(p, tuple) and len(p) == 2 and isinstance(p[0], str)
                                                   and isinstance(p[1], str) for p in key)
                    and len({p[0] for p in key}) == len(key)):
                ctx.disc(None, "collated_counts-key-shape", "key", "((tag, bits), ...) with distinct tags", repr(key),
                         stratum=stratum, case=case)
    # per-shot collate_tags keeps ALL values per tag in entry order (whatever the values are), one dict per shot
    ctx.count("monitor:collated-shots")
    got_shots = QsysResult(shots).collated_shots()
    if len(got_shots) != len(shots):
        ctx.disc(None, "collated_shots", "number of shots", len(shots), len(got_shots), stratum=stratum, case=case)
    for s, d in zip(shots, got_shots):
        want: dict = {}
        for t, v in s:
            want.setdefault(t, []).append(v)
        if d != want or repr(d) != repr(want):      # (repr: True is not 1, 0.5 stays 0.5)
            ctx.disc(None, "collated_shots", "shot", want, d, stratum=stratum, case=case)


def check_empty(ctx):
    """results without shots, in every spelling of 'no shots'"""
    from hugr.qsystem.result import QsysResult, QsysShot

    for how, mk in (("QsysResult()", lambda: QsysResult()), ("QsysResult(None)", lambda: QsysResult(None)),
                    ("QsysResult([])", lambda: QsysResult([])), ("QsysResult(iter(()))", lambda: QsysResult(iter(())))):
        for sn in (False, True):
            for sl in (False, True):
                ctx.count("monitor:zero-shots")
                case = {"shots": [], "strict_names": sn, "strict_lengths": sl, "how": how}
                for what, want in (("register_bitstrings", {}), ("register_counts", {})):
                    got = outcome(lambda: getattr(mk(), what)(strict_names=sn, strict_lengths=sl))
                    if got != ("value", want):
                        ctx.disc(None, what + "[zero shots]", how, ("value", want), got, stratum="empty", case=case)
        if outcome(lambda: mk().collated_counts()) != ("value", Counter()) or outcome(lambda: mk().collated_shots()) != ("value", []):
            ctx.disc(None, "collated[zero shots]", how, "empty", "not empty / raises", stratum="empty", case={"how": how})
    # a result of shots that have no entries at all, and shots in every spelling of 'no entries'
    for mk in (lambda: QsysResult([[], QsysShot(), QsysShot(None), QsysShot([])]),):
        for sn in (False, True):
            got = outcome(lambda: mk().register_bitstrings(strict_names=sn, strict_lengths=True))
            if got != ("value", {}):
                ctx.disc(None, "register_bitstrings[empty shots]", sn, ("value", {}), got, stratum="empty",
                         case={"shots": [[], [], [], []], "strict_names": sn})


def run(ctx):
    if ctx.shard == 0:
        ctx.guard("empty", None, check_empty, ctx)
        ctx.case("empty", "zero-shots", False)
    for i in ctx.mine(ctx.n(30000, 4000000)):
        r = ctx.rng("shot", i)
        s = gen_shot(r)
        ctx.case("shot", s, shot_nontrivial(s))
        ctx.guard("shot", s, check_shot, ctx, s)
    for i in ctx.mine(ctx.n(5000, 600000)):
        r = ctx.rng("result", i)
        c = gen_result(r)
        per = []
        for s in c["shots"]:
            try:
                per.append(model_bits([(t, real(v)) for t, v in s]))
            except NotBit:
                per.append(None)
        nt = len({None if d is None else tuple(sorted((k, len(v)) for k, v in d.items()))
                  for d in per}) > 1
        ctx.case("result", c, nt)
        ctx.guard("result", c, check_result, ctx, c)
    for i in ctx.mine(ctx.n(5000, 600000)):
        r = ctx.rng("collate", i)
        shots = []
        for _ in range(r.randint(1, 5)):
            s = gen_shot(r, bad_p=0.03, regs=["a", "b", "a[0]", "c"])
            s = [[t, nest(r, v)] for t, v in s]
            if s and r.random() < 0.4:
                # the same value reported again (under the same tag, or doubled inside a nested value)
                t0, v0 = r.choice(s)
                s.append([t0, v0] if r.random() < 0.6 or not isinstance(v0, list) else [t0, [v0, v0]])
            shots.append(s)
        c = {"shots": shots, "alias": i % 2 == 1}
        ctx.case("collate", c, any(len({t for t, _ in s}) < len(s) for s in shots))
        ctx.guard("collate", c, check_collated, ctx, c)


def replay(ctx, rec):
    st, case = rec.get("stratum"), rec.get("case")
    if st == "empty":
        check_empty(ctx)
    elif st == "shot":
        check_shot(ctx, case)
    elif st == "result":
        check_result(ctx, case)
    else:
        check_collated(ctx, case)
