"""C05, foreign-document stratum: documents written the way hugr-core's serialize.rs writes them
(null offsets for state-order edges between dataflow nodes, metadata list with null holes,
another encoder string, shuffled keys, optional fields omitted, Unit sums respelled as General
and tuple values as Sum values) must survive load + re-save: every node, op kind, names, types,
function type parameters, type arguments, constant payloads, every edge and all metadata."""

from __future__ import annotations

import json
from collections import Counter


# ------------------------------------------------------------------------------------ canonicaliser
def canon_json(x):
    from vf.oracles import wire

    if isinstance(x, list):
        return [canon_json(v) for v in x]
    if not isinstance(x, dict):
        return x
    if "t" in x and x.get("t") in ("Sum", "G", "Opaque", "Q", "I", "V", "R", "Alias"):
        c = wire.canon(x)
        return {k: (canon_json(v) if k in ("args",) else v) for k, v in c.items()}
    if "v" in x and x.get("v") in ("Sum", "Tuple", "Extension", "Function"):
        return canon_value(x)
    if "body" in x and "params" in x and len(x) == 2:
        return {"params": x["params"], "body": canon_json({"t": "G", **x["body"]})}
    return {k: canon_json(v) for k, v in x.items()}


def canon_value(v):
    from vf.oracles import wire

    k = v["v"]
    if k == "Tuple":
        vs = [canon_value(x) for x in v["vs"]]
        return {"v": "Sum", "tag": 0, "typ": wire.canon({"t": "Sum", "s": "General",
                                                         "rows": [[wire.type_of_value(x) for x in v["vs"]]]}),
                "vs": vs}
    if k == "Sum":
        return {"v": "Sum", "tag": v["tag"], "typ": wire.canon(v["typ"]), "vs": [canon_value(x) for x in v["vs"]]}
    if k == "Function":
        return {"v": "Function", "hugr": canon_doc(v["hugr"])}
    if k == "Extension":
        return {"v": "Extension", "extensions": sorted(set(v.get("extensions", []))), "typ": wire.canon(v["typ"]),
                "value": {"c": v["value"]["c"], "v": canon_json(v["value"]["v"])}}
    return v


EMPTY_SIG = {"input": [], "output": [], "runtime_reqs": []}
# keys the published schema does not require, with the value their absence stands for
DEFAULTS = {
    "DataflowBlock": {"extension_delta": [], "inputs": [], "other_outputs": []},
    "TailLoop": {"extension_delta": [], "just_inputs": [], "just_outputs": [], "rest": []},
    "Conditional": {"extension_delta": [], "other_inputs": [], "outputs": [], "sum_rows": []},
    "Extension": {"description": "", "args": [], "signature": EMPTY_SIG},
    "Input": {"types": []}, "Output": {"types": []},
    "DFG": {"signature": EMPTY_SIG}, "CFG": {"signature": EMPTY_SIG}, "Case": {"signature": EMPTY_SIG},
    "CallIndirect": {"signature": EMPTY_SIG},
}


def optional_keys_from_schema():
    """{op: [keys]} that the published strict schema lets a writer omit (not in `required`, not the tag)"""
    from vf import env

    defs = json.loads((env.REPO / "specification" / "schema" / "hugr_schema_strict_live.json").read_text())["$defs"]
    out = {}
    for df in defs.values():
        op = df.get("properties", {}).get("op", {}).get("const")
        if op:
            out[op] = sorted(k for k in df["properties"] if k not in df.get("required", []) and k != "op")
    return out


def fill_defaults(n):
    n = dict(n)
    for k, dv in DEFAULTS.get(n["op"], {}).items():
        n.setdefault(k, copy_json(dv))
    return n


def copy_json(x):
    return json.loads(json.dumps(x))


def canon_doc(doc):
    from vf.oracles import wire

    nodes = []
    filled = [fill_defaults(n) for n in doc["nodes"]]
    for n in filled:
        n = dict(n)
        if n["op"] in ("DFG", "CFG", "CallIndirect", "Case", "Extension") and "signature" in n:
            n["signature"] = {"t": "G", **n["signature"]}
        if n["op"] in ("Call", "LoadFunction"):
            n["instantiation"] = {"t": "G", **n["instantiation"]}
        c = canon_json(n)
        if "extension_delta" in c:
            c["extension_delta"] = sorted(set(c["extension_delta"]))
        nodes.append(c)
    ports = [wire.op_ports(n) for n in filled]
    edges = Counter()
    for (s, so), (t, to) in doc["edges"]:
        if so is None:
            so = wire.other_index(ports[s], "out")
        if to is None:
            to = wire.other_index(ports[t], "in")
        edges[(s, so, t, to)] += 1
    md = list(doc.get("metadata") or [])
    md = [(m or None) for m in md] + [None] * (len(nodes) - len(md))
    return {"nodes": nodes, "edges": sorted([*k, c] for k, c in edges.items()), "metadata": md}


# ------------------------------------------------------------------------------------ foreign writer
def respell(x, r):
    """semantics-preserving respelling of types / values inside a JSON value"""
    if isinstance(x, list):
        return [respell(v, r) for v in x]
    if not isinstance(x, dict):
        return x
    if x.get("t") == "Sum":
        if x["s"] == "Unit" and r.random() < 0.5 and x["size"] < 6:
            return {"t": "Sum", "s": "General", "rows": [[] for _ in range(x["size"])]}
        if x["s"] == "General" and all(len(row) == 0 for row in x["rows"]) and r.random() < 0.5:
            return {"t": "Sum", "s": "Unit", "size": len(x["rows"])}
    if x.get("v") == "Tuple" and r.random() < 0.5:
        from vf.oracles import wire

        vs = [respell(v, r) for v in x["vs"]]
        return {"v": "Sum", "tag": 0, "typ": {"t": "Sum", "s": "General",
                                               "rows": [[wire.type_of_value(v) for v in x["vs"]]]}, "vs": vs}
    out = {k: respell(v, r) for k, v in x.items()}
    if out.get("t") == "G" and out.get("runtime_reqs") == [] and r.random() < 0.5:
        del out["runtime_reqs"]
    items = list(out.items())
    r.shuffle(items)
    return dict(items)


OPTIONAL: dict = {}
OMITTED: dict = {}


def foreign_doc(h, r):
    """re-emit a real Hugr the way hugr-core does; returns (doc, number of null-offset edges)"""
    from vf.oracles import wire
    from vf.oracles.observe import enc_op

    if not OPTIONAL:
        OPTIONAL.update(optional_keys_from_schema())
        unknown = {op: [k for k in ks if k not in DEFAULTS.get(op, {})] for op, ks in OPTIONAL.items()}
        unknown = {op: ks for op, ks in unknown.items() if ks}
        assert not unknown, f"published schema lets a writer omit keys the canonicaliser has no default for: {unknown}"
    order = [n.idx for n in h]
    ren = {old: new for new, old in enumerate(order)}
    nodes = []
    for n in h:
        d = h[n]
        j = {"parent": ren[d.parent.idx] if d.parent is not None else ren[n.idx], **enc_op(d.op)}
        # a foreign writer may leave out every key the published schema does not require when it holds the
        # value its absence stands for
        for k in OPTIONAL.get(j["op"], []):
            dv = DEFAULTS.get(j["op"], {}).get(k)
            if k in j and dv is not None and r.random() < 0.5:
                cur = j[k]
                if k == "signature":
                    same = cur.get("input") == [] and cur.get("output") == [] and cur.get("runtime_reqs", []) == []
                else:
                    same = cur == dv
                if same:
                    del j[k]
                    OMITTED[f"{j['op']}.{k}"] = OMITTED.get(f"{j['op']}.{k}", 0) + 1
        j = respell(j, r)
        nodes.append(j)
    ports = [wire.op_ports({"parent": 0, **enc_op(h[n].op)}) for n in h]
    edges, nulls = [], 0
    for s, t in h.links():
        a, b = ren[s.node.idx], ren[t.node.idx]
        so, to = s.offset, t.offset
        if so == -1:
            if ports[a]["other_out"] != "order":
                return None, 0
            # hugr-core writes null; the explicit index of the order port is the same port
            so = None if r.random() < 0.75 else wire.other_index(ports[a], "out")
        if to == -1:
            if ports[b]["other_in"] != "order":
                return None, 0
            to = None if r.random() < 0.75 else wire.other_index(ports[b], "in")
        if so is None or to is None:
            nulls += 1
        edges.append([[a, so], [b, to]])
    r.shuffle(edges)
    md = [(dict(h[n].metadata) or None) for n in h]
    doc = {"version": "live", "nodes": nodes, "edges": edges, "metadata": md,
           "encoder": "hugr-rs v0.15.0"}
    how = r.random()
    if all(m is None for m in md) and how < 0.3:
        doc["metadata"] = r.choice([None, []])
        if r.random() < 0.3:
            del doc["metadata"]          # the key has a default
    elif how < 0.55 and len(md) > 1:
        # a metadata array that covers only the leading nodes (nothing constrains its length): the document says
        # that the remaining nodes have none
        doc["metadata"] = md[:r.randrange(1, len(md))]
    items = list(doc.items())
    r.shuffle(items)
    return dict(items), nulls


def check_doc(ctx, doc, case, stratum="foreign"):
    from hugr import Hugr
    from vf.props.c03 import schema_errors

    errs = schema_errors("SerialHugr", doc)
    if errs:
        ctx.count("foreign:dropped-not-schema-valid")
        ctx.extra.setdefault("foreign_schema_rejects", []).append(errs[0])
        return False
    ctx.count("monitor:foreign-doc")
    try:
        h = Hugr.load_json(json.dumps(doc))
        out = json.loads(h.to_json())
    except Exception as e:  # noqa: BLE001
        ctx.disc(None, "foreign-load-raises", type(e).__name__, "loads and re-saves", str(e)[:300],
                 stratum=stratum, case=case)
        return True
    # the loaded HUGR itself (not only what it re-saves): every edge of the document is a link between the same
    # nodes and ports, an edge on the port after the value / static ports (or without an offset) being a
    # state-order link (offset -1 on both sides)
    from vf.oracles import wire

    filled = [fill_defaults(n) for n in doc["nodes"]]
    ports = [wire.op_ports(n) for n in filled]
    want = Counter()
    for (s_, so), (t_, to) in doc["edges"]:
        if so is None or (ports[s_]["other_out"] == "order" and so == wire.other_index(ports[s_], "out")):
            so = -1
        if to is None or (ports[t_]["other_in"] == "order" and to == wire.other_index(ports[t_], "in")):
            to = -1
        want[(s_, so, t_, to)] += 1
    got = Counter((x.node.idx, x.offset, y.node.idx, y.offset) for x, y in h.links())
    ctx.count("monitor:foreign-links-in-memory")
    if any(k[1] == -1 for k in want) and any(
            len(ports[k[0]]["out"]) == 0 or len(ports[k[2]]["in"]) == 0 for k in want if k[1] == -1):
        ctx.feat("feature:order-edge-at-offset-0")
    if want != got:
        ctx.disc(None, "foreign-links-in-memory", "links() of the loaded HUGR", sorted((want - got).elements())[:4],
                 sorted((got - want).elements())[:4], stratum=stratum, case=case)
    a, b = canon_doc(doc), canon_doc(out)
    from vf.oracles.observe import diff, generic_path

    paths = diff(a, b)
    for m in sorted({generic_path(p) for p, _, _ in paths}):
        ex = [p for p in paths if generic_path(p[0]) == m][0]
        ctx.disc(None, f"foreign-not-preserved[{m}]", ex[0], ex[1], ex[2], stratum=stratum, case=case)
    # what a user does with a loaded HUGR next must not reach the documents loaded later in this process: metadata is
    # written on every node of the loaded HUGR that came without any (the HUGR is dropped afterwards)
    ctx.count("monitor:loaded-hugr-annotated-afterwards")
    for n_ in list(h):
        if not h[n_].metadata:
            h[n_].metadata["verif.written-on-an-earlier-document"] = n_.idx
    return True


def check_case(ctx, case, stratum="foreign"):
    import random

    from vf.props import c02

    h, _ = c02.build(case["hugr"])
    r = random.Random(case["rseed"])
    doc, nulls = foreign_doc(h, r)
    if doc is None:
        ctx.count("foreign:skipped-link-on-missing-port")
        return False
    if nulls:
        ctx.feat("feature:null-offset-edge")
    check_doc(ctx, doc, case, stratum)
    for k in list(OMITTED):
        ctx.count("omitted-default:" + k, OMITTED.pop(k))
    return nulls > 0


def run(ctx):
    from vf import env
    from vf.gen.prog import gen_program
    from vf.props import c02

    for i in ctx.mine(ctx.n(400, 15000)):
        r = ctx.rng("foreign", i)
        hc = {"prog": gen_program(r, budget=25)}
        if r.random() < 0.5:
            hc["md"] = c02.gen_md(r)
        if r.random() < 0.5:
            hc["hist"] = [["add_order_link", r.randrange(40), r.randrange(40)] for _ in range(8)]
        if r.random() < 0.6:
            hc["plant"] = c02.gen_plant(r, 4)
        case = {"hugr": hc, "rseed": f"{ctx.seed}/{i}"}
        nt = ctx.guard("foreign", case, check_case, ctx, case)
        ctx.case("foreign", case, bool(nt))
    if ctx.shard == 0:
        files = sorted((env.REPO / "resources" / "test").glob("*.json")) + sorted(
            (env.REPO / "hugr-core" / "src" / "hugr" / "serialize" / "upgrade" / "testcases").glob("*.json"))
        for f in files:
            try:
                doc = json.loads(f.read_text())
            except Exception:  # noqa: BLE001
                continue
            if doc.get("version") != "live":
                continue
            case = {"file": str(f.relative_to(env.REPO))}
            ok = ctx.guard("foreign-file", case, check_doc, ctx, doc, case, "foreign-file")
            ctx.case("foreign-file", case, bool(ok))


def replay(ctx, rec):
    from vf import env

    case = rec["case"]
    if "file" in case:
        check_doc(ctx, json.loads((env.REPO / case["file"]).read_text()), case, "foreign-file")
    else:
        check_case(ctx, case)
