"""C08 — inserting a HUGR embeds it isomorphically and disturbs nothing else.

Snapshot differential: observe+(A), observe+(B) before; m = A.insert_hugr(B, parent); then the
mapping must be an isomorphism from B onto the inserted part (ops, hierarchy with child order,
metadata, output port counts, every link with offsets and multiplicity incl. order links), A's old
nodes and links are unchanged (the parent gains exactly one last child) and B is untouched.
Builder level: insert_nested / insert_cfg / insert_conditional / insert_tail_loop."""

from __future__ import annotations

from collections import Counter

ID = "C08"
META = {
    "level": "exploration",
    "rule": ("case = {A: hugr case, B: hugr case, parent choice} or a builder-insert scenario; distinct by JSON; "
             "non-trivial when B has >= 4 nodes and >= 1 of {hole, multi-linked port, order link, metadata}"),
    "required": ["monitor:insert-iso", "monitor:A-unchanged", "monitor:B-unchanged", "monitor:builder-insert", "feature:insert-into-nested-builder", "feature:B-inserted-twice",
                 "feature:B-holes", "feature:B-multilink", "feature:B-order-link", "feature:B-metadata",
                 "feature:B-duplicate-link", "feature:parent-deep", "feature:A-holes",
                 "builder:insert_nested", "builder:insert_cfg", "builder:insert_conditional",
                 "builder:insert_tail_loop"],
    "reach": ["hugr.hugr.base:Hugr.insert_hugr", "hugr.build.dfg:DfBase._insert_nested_impl"],
    "assumptions": [
        "an insert_hugr that raises ParentBeforeChild (B lists a child before its parent after index reuse) is a "
        "documented refusal and is not judged",
        "aliasing of metadata dict objects between A and B is not judged",
    ],
}


def snap(h):
    """raw-index snapshot: per node encoded op, parent, children, metadata, num_out_ports; link multiset"""
    import json

    from hugr import Node
    from vf.oracles.observe import enc_op

    def enc(op):
        try:
            return enc_op(op)
        except Exception:  # noqa: BLE001  (incomplete op of a builder that is still open)
            return repr(op)

    nodes = {}
    for n in h:
        d = h[n]
        nodes[n.idx] = {"op": enc(d.op), "parent": (d.parent.idx if type(d.parent) is Node else repr(type(d.parent)))
                        if d.parent is not None else None,
                        "children": [c.idx for c in h.children(Node(n.idx))],
                        "metadata": json.loads(json.dumps(d.metadata, sort_keys=True, default=repr)),
                        "nout": h.num_out_ports(Node(n.idx)), "nin": h.num_in_ports(Node(n.idx))}
    links = Counter((s.node.idx, s.offset, t.node.idx, t.offset) for s, t in h.links())
    return {"nodes": nodes, "links": links}


def check_embedding(ctx, sA, sB, sA2, sB2, m, parent, stratum, case, m_is_returned=True):
    """m: dict B idx -> A' idx"""

    def bad(kind, locus, exp, obs):
        ctx.disc(None, kind, locus, exp, obs, stratum=stratum, case=case)

    ctx.count("monitor:B-unchanged")
    if sB2 != sB:
        bad("B-modified", "observe+(B)", "unchanged", "changed")
    ctx.count("monitor:insert-iso")
    if set(m) != set(sB["nodes"]):
        bad("mapping-domain", "dom(m)", sorted(sB["nodes"]), sorted(m))
        return
    imgs = list(m.values())
    if len(set(imgs)) != len(imgs):
        bad("mapping-not-injective", "m", "injective", imgs)
    if set(imgs) & set(sA["nodes"]):
        bad("mapping-hits-live-node", "m", "fresh indices", sorted(set(imgs) & set(sA["nodes"])))
    if set(sA2["nodes"]) != set(sA["nodes"]) | set(imgs):
        bad("node-set", "nodes(A')", sorted(set(sA["nodes"]) | set(imgs)), sorted(sA2["nodes"]))
        return
    broot = next(b for b, d in sB["nodes"].items() if d["parent"] is None)
    for b, d in sB["nodes"].items():
        a = sA2["nodes"][m[b]]
        if a["op"] != d["op"]:
            bad("op-differs", b, d["op"], a["op"])
        if a["metadata"] != d["metadata"]:
            bad("metadata-differs", b, d["metadata"], a["metadata"])
        if a["nout"] != d["nout"]:
            bad("num_out_ports-differs", b, d["nout"], a["nout"])
        if a["children"] != [m[c] for c in d["children"]]:
            bad("children-differ", b, [m[c] for c in d["children"]], a["children"])
        want_parent = parent if b == broot else m[d["parent"]]
        if a["parent"] != want_parent:
            bad("parent-differs", b, want_parent, a["parent"])
    img = set(imgs)
    want_links = Counter({(m[s], so, m[t], to): c for (s, so, t, to), c in sB["links"].items()})
    got_links = Counter({k: c for k, c in sA2["links"].items() if k[0] in img or k[2] in img})
    if m_is_returned and want_links != got_links:
        bad("links-differ", "links touching the image", sorted((want_links - got_links).elements())[:5],
            sorted((got_links - want_links).elements())[:5])
    ctx.count("monitor:A-unchanged")
    old_links = Counter({k: c for k, c in sA2["links"].items() if k[0] not in img and k[2] not in img})
    if m_is_returned and old_links != sA["links"]:
        bad("old-links-changed", "links of A", sorted((sA["links"] - old_links).elements())[:5],
            sorted((old_links - sA["links"]).elements())[:5])
    for i, d in sA["nodes"].items():
        a = sA2["nodes"][i]
        want_children = d["children"] + ([m[broot]] if i == parent else [])
        if a["op"] != d["op"] or a["parent"] != d["parent"] or a["metadata"] != d["metadata"]:
            bad("old-node-changed", i, d, a)
        if m_is_returned and (a["nout"], a["nin"]) != (d["nout"], d["nin"]):
            # (plain insert_hugr attaches nothing to A's nodes: their port counts stay what they were)
            bad("old-node-port-counts-changed", i, [d["nin"], d["nout"]], [a["nin"], a["nout"]])
        if a["children"] != want_children:
            bad("old-children-changed", i, want_children, a["children"])
    return want_links, got_links, old_links


def build_hugr(spec):
    """spec: {"hist": [...]} (Exec history, Module root) or a C02 case"""
    from vf.gen.histories import Exec
    from vf.props import c02

    if "exec" in spec:
        ex = Exec()
        ex.valid_ports_only = False
        for st in spec["exec"]:
            if ex.applicable(st):
                ex.step(st)
        return ex.h
    h, _ = c02.build(spec)
    return h


def check_insert(ctx, case, stratum="insert_hugr"):
    from hugr import Node
    from hugr.exceptions import ParentBeforeChild

    A, B = build_hugr(case["A"]), build_hugr(case["B"])
    sA, sB = snap(A), snap(B)
    nodesA = sorted(sA["nodes"])
    parent = nodesA[case["parent"] % len(nodesA)]
    # features
    nb = sorted(sB["nodes"])
    if nb and nb[-1] + 1 != len(nb):
        ctx.feat("feature:B-holes")
    if nodesA[-1] + 1 != len(nodesA):
        ctx.feat("feature:A-holes")
    per_port = Counter()
    for (s, so, t, to), c in sB["links"].items():
        per_port[("o", s, so)] += c
        per_port[("i", t, to)] += c
        if c > 1:
            ctx.feat("feature:B-duplicate-link")
        if so == -1:
            ctx.feat("feature:B-order-link")
    multi = any(v > 1 for v in per_port.values())
    if multi:
        ctx.feat("feature:B-multilink")
    md = any(d["metadata"] for d in sB["nodes"].values())
    if md:
        ctx.feat("feature:B-metadata")
    depth = 0
    p = parent
    while sA["nodes"][p]["parent"] is not None:
        p = sA["nodes"][p]["parent"]
        depth += 1
    if depth >= 2:
        ctx.feat("feature:parent-deep")
    try:
        if parent == A.root.idx and case["parent"] % 2 == 0:
            ctx.feat("feature:default-parent")
            mapping = A.insert_hugr(B)  # "parent: defaults to the root"
        else:
            # the parent as a Node, or as something that merely can be treated as one (what the builders are)
            from vf.gen.histories import as_node

            if case["parent"] % 2:
                ctx.feat("feature:parent-given-as-ToNode")
                mapping = A.insert_hugr(B, as_node(Node(parent)))
            else:
                mapping = A.insert_hugr(B, Node(parent))
    except ParentBeforeChild:
        ctx.count("refused:ParentBeforeChild")
        return False
    m = {k.idx: v.idx for k, v in mapping.items()}
    if len(m) != len(mapping):
        ctx.disc(None, "mapping-keys-collide", "m", len(mapping), len(m), stratum=stratum, case=case)
    check_embedding(ctx, sA, sB, snap(A), snap(B), m, parent, stratum, case)
    if case["parent"] % 3 == 0:
        # the same B inserted a second time (elsewhere): again an isomorphic copy, and the first copy is part of
        # "all nodes and links A had before"
        ctx.feat("feature:B-inserted-twice")
        sA1 = snap(A)
        nodes1 = sorted(sA1["nodes"])
        parent2 = nodes1[(case["parent"] // 3) % len(nodes1)]
        try:
            mapping2 = A.insert_hugr(B, Node(parent2))
        except ParentBeforeChild:
            ctx.count("refused:ParentBeforeChild")
        else:
            m2 = {k.idx: v.idx for k, v in mapping2.items()}
            check_embedding(ctx, sA1, sB, snap(A), snap(B), m2, parent2, stratum, case)
    holes = bool(nb) and nb[-1] + 1 != len(nb)
    return len(nb) >= 4 and (holes or multi or md or any(k[1] == -1 for k in sB["links"]))


def tree_mapping(sB, sA2, img_root):
    """B idx -> A' idx by parallel traversal of the hierarchies from (B.root -> img_root)"""
    broot = next(b for b, d in sB["nodes"].items() if d["parent"] is None)
    m = {broot: img_root}
    stack = [broot]
    while stack:
        b = stack.pop()
        cb, ca = sB["nodes"][b]["children"], sA2["nodes"][m[b]]["children"]
        if len(cb) != len(ca):
            return None
        for x, y in zip(cb, ca):
            m[x] = y
            stack.append(x)
    return m


def check_builder_insert(ctx, case, stratum="builder-insert"):
    from hugr.build import Dfg
    from vf.gen.types import Builder
    from vf.interp import Interp

    p = case["prog"]
    it = Interp()
    it.run(p)
    b = it.root_builder
    st = p["root"]["stmt"]
    kind = p["root"]["k"]
    tb = Builder()
    if kind == "dfg":
        tys_ = st["ptys"]
    elif kind == "cfg":
        tys_ = st["atys"]
    elif kind == "cond":
        tys_ = [st["sumty"], *st["otys"]]
    else:
        tys_ = [*st["jtys"], *st["rtys"]]
    from hugr import ops

    host = Dfg(*tb.row(tys_))
    ins = host.inputs()
    hc = case.get("host")
    allowed_extra = Counter()
    if hc:
        # the receiving HUGR has content of its own (nodes and links to be left undisturbed), and the receiving
        # builder may itself be a nested region of it
        ins = [host.add_op(ops.Noop(), w)[0] if hc["noops"][i % len(hc["noops"])] else w for i, w in enumerate(ins)]
        for _ in range(hc.get("extra", 0)):
            host.add_state_order(host.input_node, host.add_op(ops.Noop(), host.load(__import__("hugr").val.TRUE)))
        if hc.get("wires") == "dom":
            # the receiving builder is a basic block, the given wires live in ANOTHER block of the same CFG
            # (dominator edges: linked as they are, no order edge)
            from hugr.build import Cfg

            ctx.feat("feature:insert-into-block-with-dominator-wires")
            cfg = Cfg(*tb.row(tys_))
            entry = cfg.add_entry()
            ins = [entry.add_op(ops.Noop(), w)[0] if hc["noops"][i % len(hc["noops"])] else w
                   for i, w in enumerate(entry.inputs())]
            entry.set_single_succ_outputs()
            host = cfg.add_successor(entry[0])
        elif hc["nested"]:
            ctx.feat("feature:insert-into-nested-builder")
            outer = host
            if hc.get("wires") == "ext":
                # the given wires come from the ENCLOSING region (non-local edges: each brings one order edge from its
                # source node to the receiving region's node, and nothing else)
                ctx.feat("feature:insert-with-non-local-wires")
                host = outer.add_nested()
                ext_sources = {w.out_port().node.idx for w in ins}
                allowed_extra = Counter({(sidx, -1, host.parent_node.idx, -1): 1 for sidx in ext_sources})
            else:
                host = outer.add_nested(*ins)
                ins = host.inputs()
    sA, sB = snap(host.hugr), snap(b.hugr)
    if kind == "dfg":
        n = host.insert_nested(b, *ins)
        ctx.count("builder:insert_nested")
    elif kind == "cfg":
        n = host.insert_cfg(b, *ins)
        ctx.count("builder:insert_cfg")
    elif kind == "cond":
        n = host.insert_conditional(b, ins[0], *ins[1:])
        ctx.count("builder:insert_conditional")
    else:
        nj = len(st["jtys"])
        n = host.insert_tail_loop(b, ins[:nj], ins[nj:])
        ctx.count("builder:insert_tail_loop")
    ctx.count("monitor:builder-insert")
    sA2 = snap(host.hugr)

    def bad(kind_, locus, exp, obs):
        ctx.disc(None, kind_, locus, exp, obs, stratum=stratum, case=case)

    parent = host.parent_node.idx
    if n.idx in sA["nodes"] or n.idx not in sA2["nodes"]:
        bad("returned-node", "insert_*", "a new node", n.idx)
        return False
    if sA2["nodes"][n.idx]["parent"] != parent or sA2["nodes"][parent]["children"][-1] != n.idx:
        bad("returned-node-placement", n.idx, f"last child of {parent}", sA2["nodes"][n.idx]["parent"])
    m = tree_mapping(sB, sA2, n.idx)
    if m is None:
        bad("subtree-shape", n.idx, "hierarchy of B", "different child counts")
        return False
    res = check_embedding(ctx, sA, sB, sA2, snap(b.hugr), m, parent, stratum, case, m_is_returned=False)
    if res is None:
        return False
    # links: those of B mapped, plus exactly the wires input i -> n.inp(i); nothing else changed
    want = Counter({(m[s], so, m[t], to): c for (s, so, t, to), c in sB["links"].items()})
    for i in range(len(tys_)):
        src = ins[i].out_port()
        want[(src.node.idx, src.offset, n.idx, i)] += 1
    img = set(m.values())
    got = Counter({k: c for k, c in sA2["links"].items() if k[0] in img or k[2] in img})
    if want != got:
        bad("builder-insert-links", "links touching the inserted part", sorted((want - got).elements())[:5],
            sorted((got - want).elements())[:5])
    rest = Counter({k: c for k, c in sA2["links"].items() if k[0] not in img and k[2] not in img})
    if rest != sA["links"] + allowed_extra and rest != sA["links"] | allowed_extra:
        bad("builder-insert-old-links", "links of the host", "unchanged (plus one order edge per non-local source)",
            [sorted((rest - sA["links"]).elements())[:4], sorted((sA["links"] - rest).elements())[:4]])
    return len(sB["nodes"]) >= 4


def run(ctx):
    from vf.gen.histories import gen_history, gen_history_on
    from vf.gen.prog import gen_program
    from vf.props import c02

    def gen_spec(r, small=False):
        k = r.choice(["exec", "exec", "prog", "prog+hist", "history"])
        if k == "exec":
            return {"exec": gen_history(r, max_steps=25, max_nodes=7, allow_insert=False, metadata=True)}
        if k == "prog":
            s = {"prog": gen_program(r, budget=10 if small else 20)}
            if r.random() < 0.5:
                s["md"] = c02.gen_md(r)
            return s
        if k == "prog+hist":
            return {"prog": gen_program(r, budget=10), "hist": gen_history_on(r, 8, max_steps=12),
                    "md": c02.gen_md(r)}
        return {"hist": gen_history(r, max_steps=25, metadata=True)}

    for i in ctx.mine(ctx.n(1500, 50000)):
        r = ctx.rng("insert", i)
        case = {"A": gen_spec(r), "B": gen_spec(r, small=True), "parent": r.randrange(1000)}
        nt = ctx.guard("insert_hugr", case, check_insert, ctx, case)
        ctx.case("insert_hugr", case, bool(nt))
    # B whose child lists are out of index order (freed indices re-used) into an A with several freed indices (the
    # copies land on A's freed indices last-freed-first, so the mapping is not monotone)
    for i in ctx.mine(ctx.n(300, 10000)):
        r = ctx.rng("reuse", i)
        na = r.randint(4, 8)
        a_steps = [["add_node", r.choice([0] * 3 + list(range(1, k + 1))) if k else 0, r.choice([None, 1, 2]), None]
                   for k in range(na)]
        a_spec = {"exec": a_steps}
        # delete leaves of A in random order: handles that are nobody's parent
        parents = {st[1] for st in a_steps}
        leaves = [h for h in range(1, na + 1) if h not in parents]
        r.shuffle(leaves)
        a_steps += [["delete_node", h] for h in leaves[:r.randint(min(3, len(leaves)), len(leaves))]]
        nb = r.randint(3, 5)
        b_steps = [["add_node", 0, r.choice([None, 1, 2]), {"k": k} if r.random() < 0.3 else None] for k in range(nb)]
        dead = r.sample(range(1, nb + 1), r.randint(1, nb - 1))
        b_steps += [["delete_node", h] for h in dead]
        b_steps += [["add_node", 0, 1, None] for _ in range(r.randint(1, len(dead)))]
        live = [h for h in range(1, nb + 1) if h not in dead]
        if len(live) >= 2 and r.random() < 0.6:
            b_steps.append(["add_link", live[0], 0, live[1], 0])
        case = {"A": a_spec, "B": {"exec": b_steps}, "parent": r.choice([0, 0, r.randrange(1000)])}
        ctx.feat("feature:reused-B-into-holed-A")
        nt = ctx.guard("insert_hugr", case, check_insert, ctx, case)
        ctx.case("insert_hugr", case, bool(nt))
    for i in ctx.mine(ctx.n(400, 12000)):
        r = ctx.rng("builder", i)
        kind = ["dfg", "cfg", "cond", "loop"][i % 4]
        p = gen_program(r, kind=kind, budget=15)
        if p["kind"] != kind:
            continue
        case = {"prog": p, "host": {"nested": r.random() < 0.5, "noops": [r.random() < 0.5 for _ in range(3)],
                                    "extra": r.randint(0, 2), "wires": r.choice(["local", "local", "dom", "ext"])}}
        nt = ctx.guard("builder-insert", case, check_builder_insert, ctx, case)
        ctx.case("builder-insert", case, bool(nt))


def replay(ctx, rec):
    if rec.get("stratum") == "builder-insert":
        check_builder_insert(ctx, rec["case"])
    else:
        check_insert(ctx, rec["case"])
