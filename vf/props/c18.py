"""C18 — BiMap stays a bijection under every operation sequence.

Lock-step against a plain dict model; all queries compared after every step.
Strata: exhaustive short histories over a 3x3 sub-domain, random long histories over a
5x5 domain with falsy members, constructor cases.  An icontract class invariant
(`bck` is the exact inverse of `fwd`) is armed on the real class during the run."""

from __future__ import annotations

import itertools

ID = "C18"
META = {
    "level": "exploration",
    "rule": ("case = history of BiMap mutator calls (or a constructor mapping); distinct by JSON; "
             "non-trivial when some insert displaces an existing pair (hits an existing key or "
             "value with a different partner) or a delete of an absent key is attempted after a "
             "displacement"),
    "required": ["monitor:lockstep-step", "monitor:ctor", "cases:exhaustive", "cases:random", "cases:blind",
                 "monitor:blind-history", "monitor:history-from-constructed-map",
                 "monitor:icontract-invariant"],
    "reach": ["hugr.utils:BiMap.insert_left", "hugr.utils:BiMap.delete_left",
              "hugr.utils:BiMap.delete_right", "hugr.utils:BiMap.insert_right"],
    "assumptions": [
        "keys/values are hashable, pairwise non-== across types, and never None "
        "(None collides with the get_left/get_right 'absent' result)",
        "histories bounded: exhaustive to length 3 (quick) / 4 (thorough) over a 3x3 domain; "
        "random to length 25 / 60 over a 5x5 domain",
    ],
    "nshards": {"quick": 8, "thorough": 16},
}

TOK = {"i0": 0, "e": "", "t": (), "i1": 1, "a": "a", "big": 10 ** 6, "tup": (1, 2), "str": "ключ-é"}


def fresh(tok):
    """the value of a token as a NEW object where Python allows it (large ints, non-empty tuples, strings built at
    run time): keys and values that are equal to the stored ones without being the same object"""
    v = TOK[tok]
    if isinstance(v, bool):
        return v
    if isinstance(v, int):
        return int(str(v))
    if isinstance(v, tuple):
        return tuple(list(v))
    if isinstance(v, str):
        return "".join(list(v))
    return v
SMALL = ["i0", "e", "t"]
ALL = list(TOK)
OPS2 = ["insert_left", "insert_right", "setitem"]
OPS1 = ["delete_left", "delete_right", "delitem"]


def alphabet(dom):
    out = []
    for o in OPS2:
        for a in dom:
            for b in dom:
                out.append([o, a, b])
    for o in OPS1:
        for a in dom:
            out.append([o, a])
    return out


class Inv:
    evals = 0
    broken: list = []


def _arm_icontract():
    """Class invariant through icontract on the real class (mutated in place so that
    every holder of a reference sees it). Conditions record and return True."""
    try:
        import icontract
        from hugr.utils import BiMap
    except Exception:  # noqa: BLE001
        return False
    if getattr(BiMap, "_verif_inv", False):
        return True

    def fwd_bck_inverse(self):  # named condition, parameter `self`
        Inv.evals += 1
        try:
            ok = self.bck == {v: k for k, v in self.fwd.items()} and len(self.fwd) == len(self.bck)
        except Exception:  # noqa: BLE001  (attributes renamed by a refactor)
            return True
        if not ok:
            Inv.broken.append((dict(self.fwd), dict(self.bck)))
        return True

    class InvariantBroken(Exception):
        pass

    icontract.invariant(fwd_bck_inverse, error=InvariantBroken)(BiMap)
    BiMap._verif_inv = True
    return True


def model_apply(f: dict, op):
    """Returns 'ok' or 'KeyError'."""
    name = op[0]
    if name in ("insert_left", "setitem"):
        k, v = TOK[op[1]], TOK[op[2]]
    elif name == "insert_right":
        v, k = TOK[op[1]], TOK[op[2]]
    if name in OPS2:
        for k2 in [k2 for k2, v2 in f.items() if v2 == v or k2 == k]:
            del f[k2]
        f[k] = v
        return "ok"
    if name in ("delete_left", "delitem"):
        k = TOK[op[1]]
        if k not in f:
            return "KeyError"
        del f[k]
        return "ok"
    if name == "delete_right":
        v = TOK[op[1]]
        ks = [k for k, v2 in f.items() if v2 == v]
        if not ks:
            return "KeyError"
        del f[ks[0]]
        return "ok"
    if name == "pop":
        k = TOK[op[1]]
        if k not in f:
            return "KeyError"
        return ("ok", f.pop(k))
    if name == "clear":
        f.clear()
        return "ok"
    if name == "update":
        for a, b in upd_pairs(op):
            model_apply(f, ["setitem", a, b])
        return "ok"
    if name == "setdefault":
        k = TOK[op[1]]
        if k in f:
            return ("ok", f[k])
        model_apply(f, ["setitem", op[1], op[2]])
        return ("ok", TOK[op[2]])
    if name == "popitem":
        return "popitem"    # which pair goes is not specified: handled by the caller
    raise AssertionError(name)


MAPPING_OPS = ["pop", "clear", "update", "setdefault", "popitem"]


def upd_pairs(op):
    """the pairs an update hands over: as given (list of pairs) or what a dict literal of them holds"""
    if not op[2]:
        return [tuple(p) for p in op[1]]
    d = {}
    for a, b in op[1]:
        d[TOK[a]] = (a, b)      # keyed by VALUE of the token: 0 / "" / () are different keys, equal tokens collapse
    return list(d.values())


def real_apply(bm, op):
    name = op[0]
    try:
        if name == "insert_left":
            bm.insert_left(fresh(op[1]), fresh(op[2]))
        elif name == "insert_right":
            bm.insert_right(fresh(op[1]), fresh(op[2]))
        elif name == "setitem":
            bm[fresh(op[1])] = fresh(op[2])
        elif name == "delete_left":
            bm.delete_left(fresh(op[1]))
        elif name == "delete_right":
            bm.delete_right(fresh(op[1]))
        elif name == "delitem":
            del bm[fresh(op[1])]
        elif name == "pop":
            return ("ok", bm.pop(fresh(op[1])))
        elif name == "clear":
            bm.clear()
        elif name == "update":
            pairs = [(fresh(a), fresh(b)) for a, b in upd_pairs(op)]
            bm.update(dict(pairs) if op[2] else pairs)
        elif name == "setdefault":
            return ("ok", bm.setdefault(fresh(op[1]), fresh(op[2])))
        elif name == "popitem":
            return ("ok", bm.popitem())
    except KeyError:
        return "KeyError"
    return "ok"


def is_displacing(f: dict, op) -> bool:
    if op[0] not in OPS2:
        return False
    if op[0] == "insert_right":
        v, k = TOK[op[1]], TOK[op[2]]
    else:
        k, v = TOK[op[1]], TOK[op[2]]
    return (k in f and f[k] != v) or any(v2 == v and k2 != k for k2, v2 in f.items())


def compare(ctx, bm, f, dom, step, stratum, case):
    def bad(q, exp, obs):
        ctx.disc(None, "query-mismatch", {"step": step, "query": q}, exp, obs,
                 stratum=stratum, case=case)

    ctx.count("monitor:lockstep-step")
    items = dict(bm.items())
    if items != f or len(list(bm.items())) != len(f):
        bad("items", f, items)
    if len(bm) != len(f):
        bad("len", len(f), len(bm))
    it = list(iter(bm))
    if sorted(map(repr, it)) != sorted(map(repr, f)) or len(it) != len(f):
        bad("iter", list(f), it)
    if hasattr(bm, "keys") and hasattr(bm, "values"):
        if sorted(map(repr, bm.keys())) != sorted(map(repr, f)) or len(bm.keys()) != len(f):
            bad("keys", list(f), list(bm.keys()))
        if sorted(map(repr, bm.values())) != sorted(map(repr, f.values())) or len(bm.values()) != len(f):
            bad("values", list(f.values()), list(bm.values()))
    inv = {v: k for k, v in f.items()}
    fwd = getattr(bm, "fwd", None)
    bck = getattr(bm, "bck", None)
    if fwd is not None and dict(fwd) != f:
        bad("fwd-view", f, dict(fwd))
    if bck is not None and dict(bck) != inv:
        bad("bck-view", inv, dict(bck))
    for t in dom:
        x = TOK[t]
        exp = f.get(x)
        if bm.get_right(x) != exp or type(bm.get_right(x)) is not type(exp):
            bad(["get_right", t], exp, bm.get_right(x))
        expl = inv.get(x)
        if bm.get_left(x) != expl or type(bm.get_left(x)) is not type(expl):
            bad(["get_left", t], expl, bm.get_left(x))
        try:
            got = ("ok", bm[x])
        except KeyError:
            got = ("KeyError", None)
        want = ("ok", f[x]) if x in f else ("KeyError", None)
        if got != want:
            bad(["getitem", t], want, got)
        if (x in bm) != (x in f):
            bad(["contains", t], x in f, x in bm)
        if hasattr(bm, "get"):
            sentinel = ("absent",)
            wantd = f.get(x, sentinel)
            gotd = bm.get(x, sentinel)
            if gotd != wantd or type(gotd) is not type(wantd):
                bad(["get-with-default", t], wantd, gotd)


def state_of(f):
    return sorted((repr(k), repr(v)) for k, v in f.items())


def run_history(ctx, hist, dom, stratum, init=None, blind=False):
    """init: pairs the map is constructed from (an injective mapping); blind: nothing is read between the calls (no
    query, no invariant walk) -- the whole comparison happens once at the end"""
    from hugr.utils import BiMap

    f: dict = {}
    if init:
        for a, b in init:
            f[TOK[a]] = TOK[b]
        bm = BiMap({fresh(a): fresh(b) for a, b in init})
        ctx.count("monitor:history-from-constructed-map")
    else:
        bm = BiMap()
    displaced = False
    prev = ctx.state(state_of(f))
    case = hist if not init else {"init": init, "hist": hist}
    for step, op in enumerate(hist):
        if op[0] in MAPPING_OPS and not hasattr(bm, op[0]):
            ctx.count(f"absent:BiMap.{op[0]}")     # (only there while the class is a MutableMapping)
            continue
        displaced = displaced or is_displacing(f, op)
        exp = model_apply(f, op)
        obs = real_apply(bm, op)
        if exp == "popitem":
            # some live pair is returned and removed (an empty map raises KeyError)
            if not f:
                exp = "KeyError"
            elif isinstance(obs, tuple) and obs[0] == "ok" and isinstance(obs[1], tuple) and len(obs[1]) == 2 \
                    and obs[1][0] in f and f[obs[1][0]] == obs[1][1]:
                del f[obs[1][0]]
                exp = obs
            else:
                exp = "('ok', a live pair)"
        if exp != obs or (isinstance(exp, tuple) and type(exp[1]) is not type(obs[1])):
            ctx.disc(None, "outcome-mismatch", {"step": step, "op": op}, exp, obs,
                     stratum=stratum, case=case)
        if not blind:
            compare(ctx, bm, f, dom, step, stratum, case)
        cur = ctx.state(state_of(f))
        ctx.transition(prev, op, cur)
        prev = cur
    if blind:
        ctx.count("monitor:blind-history")
        compare(ctx, bm, f, dom, len(hist), stratum, case)
    return displaced


def run_ctor(ctx, pairs, stratum="ctor"):
    from hugr.utils import BiMap, NotBijection

    mapping = {}
    for k, v in pairs:
        mapping[TOK[k]] = TOK[v]
    injective = len(set(map(repr, mapping.values()))) == len(mapping)
    ctx.count("monitor:ctor")
    # the argument in several spellings: a dict of the pool's own objects, a dict of equal-but-not-identical objects,
    # a read-only proxy, a UserDict, by keyword
    how = (len(pairs) + sum(len(k_) for k_, _ in pairs)) % 7
    src = {fresh(k): fresh(v) for k, v in pairs} if how else mapping
    if how == 2:
        import types

        arg = types.MappingProxyType(src)
    elif how == 3:
        import collections

        arg = collections.UserDict(src)
    elif how == 5:
        import collections

        # a dict subclass that makes up values for missing keys: the map built from it must not inherit that
        arg = collections.defaultdict(lambda: "made-up", src)
    elif how == 6:
        import collections

        arg = collections.OrderedDict(src)
    else:
        arg = src
    try:
        if how == 4:
            try:
                bm = BiMap(fwd=arg)
            except TypeError:
                ctx.count("absent:BiMap(fwd=...)")
                bm = BiMap(arg)
        else:
            bm = BiMap(arg)
        got = "ok"
    except NotBijection:
        got = "NotBijection"
    want = "ok" if injective else "NotBijection"
    if got != want:
        ctx.disc(None, "ctor-outcome", pairs, want, got, stratum=stratum, case=pairs)
        return
    if got == "ok":
        compare(ctx, bm, dict(mapping), ALL, -1, stratum, pairs)
        # the new map must be independent of the argument
        if mapping and how in (0, 1, 4):
            k0 = next(iter(src))
            del src[k0]
            if k0 not in bm:
                ctx.disc(None, "ctor-aliases-argument", pairs, "independent copy", "aliased",
                         stratum=stratum, case=pairs)


def drain_invariant(ctx, stratum, case):
    if Inv.broken:
        fwd, bck = Inv.broken[0]
        ctx.disc(None, "icontract-invariant", "bck == inverse(fwd)", "inverse",
                 {"fwd": repr(fwd), "bck": repr(bck)}, stratum=stratum, case=case)
        Inv.broken.clear()
    ctx.counters["monitor:icontract-invariant"] = Inv.evals


def gen_random(r, maxl):
    dom = ALL if r.random() < 0.7 else r.sample(ALL, 3)
    al = alphabet(ALL) if dom is ALL else alphabet(dom)
    hist = []
    for _ in range(r.randint(3, maxl)):
        if r.random() < 0.12:
            o = r.choice(MAPPING_OPS)
            if o in ("pop",):
                hist.append([o, r.choice(dom)])
            elif o == "setdefault":
                hist.append([o, r.choice(dom), r.choice(dom)])
            elif o == "update":
                hist.append([o, [[r.choice(dom), r.choice(dom)] for _ in range(r.randint(0, 3))], r.random() < 0.5])
            else:
                hist.append([o])
        else:
            hist.append(r.choice(al))
    init = None
    if r.random() < 0.4:
        ks, vs = r.sample(ALL, r.randint(1, 4)), r.sample(ALL, 4)
        init = [[k, v] for k, v in zip(ks, vs)]
    return hist, init


def run(ctx):
    # --- blind histories FIRST, on the class as it is (before the invariant walk is attached): a run of mutators
    # with nothing read in between, everything compared once at the end
    from hugr.utils import BiMap as _B

    if not getattr(_B, "_verif_inv", False):
        for i in ctx.mine(ctx.n(6000, 150000)):
            r = ctx.rng("blind", i)
            hist, init = gen_random(r, ctx.n(12, 30))
            case = {"hist": hist, "init": init, "blind": True}
            d = ctx.guard("blind", case, run_history, ctx, hist, ALL, "blind", init, True)
            ctx.case("blind", case, bool(d))
    armed = _arm_icontract()
    if not armed:
        ctx.notes.append("icontract unavailable")
    # --- exhaustive short histories
    alpha = alphabet(SMALL)
    maxlen = 3 if ctx.quick else 4
    idx = 0
    for n in range(1, maxlen + 1):
        for hist in itertools.product(alpha, repeat=n):
            idx += 1
            if idx % ctx.nshards != ctx.shard:
                continue
            hist = list(hist)
            d = ctx.guard("exhaustive", hist, run_history, ctx, hist, SMALL, "exhaustive")
            ctx.case("exhaustive", hist, d)
            if Inv.broken:
                drain_invariant(ctx, "exhaustive", hist)
    ctx.extra["exhaustive_subspace"] = (
        f"all histories of length <= {maxlen} over ops x {{0,'',()}}^2 "
        f"({sum(len(alpha) ** n for n in range(1, maxlen + 1))} histories)")
    # --- random long histories
    alpha5 = alphabet(ALL)
    nrand = ctx.n(20000, 500000)
    maxl = ctx.n(25, 60)
    for i in ctx.mine(nrand):
        r = ctx.rng("random", i)
        hist, init = gen_random(r, maxl)
        case = {"hist": hist, "init": init}
        d = ctx.guard("random", case, run_history, ctx, hist, ALL, "random", init)
        ctx.case("random", case, d)
        if Inv.broken:
            drain_invariant(ctx, "random", case)
    # --- constructor
    for i in ctx.mine(ctx.n(3000, 60000)):
        r = ctx.rng("ctor", i)
        pairs = [[r.choice(ALL), r.choice(ALL)] for _ in range(r.randint(0, 5))]
        ctx.guard("ctor", pairs, run_ctor, ctx, pairs)
        ctx.case("ctor", pairs, len({p[0] for p in pairs}) >= 2)
    drain_invariant(ctx, "final", None)


def replay(ctx, rec):
    st, case = rec.get("stratum"), rec.get("case")
    if st == "ctor":
        run_ctor(ctx, case)
    elif isinstance(case, dict):
        if not case.get("blind"):
            _arm_icontract()
        run_history(ctx, case["hist"], ALL, st or "random", case.get("init"), bool(case.get("blind")))
    else:
        _arm_icontract()
        run_history(ctx, case, ALL, st or "random")
    drain_invariant(ctx, st, case)
