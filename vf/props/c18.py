"""C18 — BiMap stays a bijection under every operation sequence.

Lock-step against a plain dict model; all queries compared after every step.
Strata: exhaustive short histories over a 3x3 sub-domain, random long histories over a
5x5 domain with falsy members, constructor cases.  An icontract class invariant
(`bck` is the exact inverse of `fwd`) is armed on the real class during the run."""

from __future__ import annotations

import itertools

ID = "C18"
META = {
    "level": "exploration",
    "rule": ("case = history of BiMap mutator calls (or a constructor mapping); distinct by JSON; "
             "non-trivial when some insert displaces an existing pair (hits an existing key or "
             "value with a different partner) or a delete of an absent key is attempted after a "
             "displacement"),
    "required": ["monitor:lockstep-step", "monitor:ctor", "cases:exhaustive", "cases:random",
                 "monitor:icontract-invariant"],
    "reach": ["hugr.utils:BiMap.insert_left", "hugr.utils:BiMap.delete_left",
              "hugr.utils:BiMap.delete_right", "hugr.utils:BiMap.insert_right"],
    "assumptions": [
        "keys/values are hashable, pairwise non-== across types, and never None "
        "(None collides with the get_left/get_right 'absent' result)",
        "histories bounded: exhaustive to length 3 (quick) / 4 (thorough) over a 3x3 domain; "
        "random to length 25 / 60 over a 5x5 domain",
    ],
    "nshards": {"quick": 8, "thorough": 16},
}

TOK = {"i0": 0, "e": "", "t": (), "i1": 1, "a": "a", "big": 10 ** 6, "tup": (1, 2), "str": "ключ-é"}


def fresh(tok):
    """the value of a token as a NEW object where Python allows it (large ints, non-empty tuples, strings built at
    run time): keys and values that are equal to the stored ones without being the same object"""
    v = TOK[tok]
    if isinstance(v, bool):
        return v
    if isinstance(v, int):
        return int(str(v))
    if isinstance(v, tuple):
        return tuple(list(v))
    if isinstance(v, str):
        return "".join(list(v))
    return v
SMALL = ["i0", "e", "t"]
ALL = list(TOK)
OPS2 = ["insert_left", "insert_right", "setitem"]
OPS1 = ["delete_left", "delete_right", "delitem"]


def alphabet(dom):
    out = []
    for o in OPS2:
        for a in dom:
            for b in dom:
                out.append([o, a, b])
    for o in OPS1:
        for a in dom:
            out.append([o, a])
    return out


class Inv:
    evals = 0
    broken: list = []


def _arm_icontract():
    """Class invariant through icontract on the real class (mutated in place so that
    every holder of a reference sees it). Conditions record and return True."""
    try:
        import icontract
        from hugr.utils import BiMap
    except Exception:  # noqa: BLE001
        return False
    if getattr(BiMap, "_verif_inv", False):
        return True

    def fwd_bck_inverse(self):  # named condition, parameter `self`
        Inv.evals += 1
        try:
            ok = self.bck == {v: k for k, v in self.fwd.items()} and len(self.fwd) == len(self.bck)
        except Exception:  # noqa: BLE001  (attributes renamed by a refactor)
            return True
        if not ok:
            Inv.broken.append((dict(self.fwd), dict(self.bck)))
        return True

    class InvariantBroken(Exception):
        pass

    icontract.invariant(fwd_bck_inverse, error=InvariantBroken)(BiMap)
    BiMap._verif_inv = True
    return True


def model_apply(f: dict, op):
    """Returns 'ok' or 'KeyError'."""
    name = op[0]
    if name in ("insert_left", "setitem"):
        k, v = TOK[op[1]], TOK[op[2]]
    elif name == "insert_right":
        v, k = TOK[op[1]], TOK[op[2]]
    if name in OPS2:
        for k2 in [k2 for k2, v2 in f.items() if v2 == v or k2 == k]:
            del f[k2]
        f[k] = v
        return "ok"
    if name in ("delete_left", "delitem"):
        k = TOK[op[1]]
        if k not in f:
            return "KeyError"
        del f[k]
        return "ok"
    if name == "delete_right":
        v = TOK[op[1]]
        ks = [k for k, v2 in f.items() if v2 == v]
        if not ks:
            return "KeyError"
        del f[ks[0]]
        return "ok"
    raise AssertionError(name)


def real_apply(bm, op):
    name = op[0]
    try:
        if name == "insert_left":
            bm.insert_left(fresh(op[1]), fresh(op[2]))
        elif name == "insert_right":
            bm.insert_right(fresh(op[1]), fresh(op[2]))
        elif name == "setitem":
            bm[fresh(op[1])] = fresh(op[2])
        elif name == "delete_left":
            bm.delete_left(fresh(op[1]))
        elif name == "delete_right":
            bm.delete_right(fresh(op[1]))
        elif name == "delitem":
            del bm[fresh(op[1])]
    except KeyError:
        return "KeyError"
    return "ok"


def is_displacing(f: dict, op) -> bool:
    if op[0] not in OPS2:
        return False
    if op[0] == "insert_right":
        v, k = TOK[op[1]], TOK[op[2]]
    else:
        k, v = TOK[op[1]], TOK[op[2]]
    return (k in f and f[k] != v) or any(v2 == v and k2 != k for k2, v2 in f.items())


def compare(ctx, bm, f, dom, step, stratum, case):
    def bad(q, exp, obs):
        ctx.disc(None, "query-mismatch", {"step": step, "query": q}, exp, obs,
                 stratum=stratum, case=case)

    ctx.count("monitor:lockstep-step")
    items = dict(bm.items())
    if items != f or len(list(bm.items())) != len(f):
        bad("items", f, items)
    if len(bm) != len(f):
        bad("len", len(f), len(bm))
    it = list(iter(bm))
    if sorted(map(repr, it)) != sorted(map(repr, f)) or len(it) != len(f):
        bad("iter", list(f), it)
    inv = {v: k for k, v in f.items()}
    fwd = getattr(bm, "fwd", None)
    bck = getattr(bm, "bck", None)
    if fwd is not None and dict(fwd) != f:
        bad("fwd-view", f, dict(fwd))
    if bck is not None and dict(bck) != inv:
        bad("bck-view", inv, dict(bck))
    for t in dom:
        x = TOK[t]
        exp = f.get(x)
        if bm.get_right(x) != exp or type(bm.get_right(x)) is not type(exp):
            bad(["get_right", t], exp, bm.get_right(x))
        expl = inv.get(x)
        if bm.get_left(x) != expl or type(bm.get_left(x)) is not type(expl):
            bad(["get_left", t], expl, bm.get_left(x))
        try:
            got = ("ok", bm[x])
        except KeyError:
            got = ("KeyError", None)
        want = ("ok", f[x]) if x in f else ("KeyError", None)
        if got != want:
            bad(["getitem", t], want, got)
        if (x in bm) != (x in f):
            bad(["contains", t], x in f, x in bm)


def state_of(f):
    return sorted((repr(k), repr(v)) for k, v in f.items())


def run_history(ctx, hist, dom, stratum):
    from hugr.utils import BiMap

    bm = BiMap()
    f: dict = {}
    displaced = False
    prev = ctx.state(state_of(f))
    for step, op in enumerate(hist):
        displaced = displaced or is_displacing(f, op)
        exp = model_apply(f, op)
        obs = real_apply(bm, op)
        if exp != obs:
            ctx.disc(None, "outcome-mismatch", {"step": step, "op": op}, exp, obs,
                     stratum=stratum, case=hist)
        compare(ctx, bm, f, dom, step, stratum, hist)
        cur = ctx.state(state_of(f))
        ctx.transition(prev, op, cur)
        prev = cur
    return displaced


def run_ctor(ctx, pairs, stratum="ctor"):
    from hugr.utils import BiMap, NotBijection

    mapping = {}
    for k, v in pairs:
        mapping[TOK[k]] = TOK[v]
    injective = len(set(map(repr, mapping.values()))) == len(mapping)
    ctx.count("monitor:ctor")
    try:
        bm = BiMap(mapping)
        got = "ok"
    except NotBijection:
        got = "NotBijection"
    want = "ok" if injective else "NotBijection"
    if got != want:
        ctx.disc(None, "ctor-outcome", pairs, want, got, stratum=stratum, case=pairs)
        return
    if got == "ok":
        compare(ctx, bm, dict(mapping), ALL, -1, stratum, pairs)
        # the new map must be independent of the argument
        if mapping:
            k0 = next(iter(mapping))
            del mapping[k0]
            if k0 not in bm:
                ctx.disc(None, "ctor-aliases-argument", pairs, "independent copy", "aliased",
                         stratum=stratum, case=pairs)


def drain_invariant(ctx, stratum, case):
    if Inv.broken:
        fwd, bck = Inv.broken[0]
        ctx.disc(None, "icontract-invariant", "bck == inverse(fwd)", "inverse",
                 {"fwd": repr(fwd), "bck": repr(bck)}, stratum=stratum, case=case)
        Inv.broken.clear()
    ctx.counters["monitor:icontract-invariant"] = Inv.evals


def run(ctx):
    armed = _arm_icontract()
    if not armed:
        ctx.notes.append("icontract unavailable")
    # --- exhaustive short histories
    alpha = alphabet(SMALL)
    maxlen = 3 if ctx.quick else 4
    idx = 0
    for n in range(1, maxlen + 1):
        for hist in itertools.product(alpha, repeat=n):
            idx += 1
            if idx % ctx.nshards != ctx.shard:
                continue
            hist = list(hist)
            d = ctx.guard("exhaustive", hist, run_history, ctx, hist, SMALL, "exhaustive")
            ctx.case("exhaustive", hist, d)
            if Inv.broken:
                drain_invariant(ctx, "exhaustive", hist)
    ctx.extra["exhaustive_subspace"] = (
        f"all histories of length <= {maxlen} over ops x {{0,'',()}}^2 "
        f"({sum(len(alpha) ** n for n in range(1, maxlen + 1))} histories)")
    # --- random long histories
    alpha5 = alphabet(ALL)
    nrand = ctx.n(20000, 500000)
    maxl = ctx.n(25, 60)
    for i in ctx.mine(nrand):
        r = ctx.rng("random", i)
        dom = ALL if r.random() < 0.7 else r.sample(ALL, 3)
        al = alpha5 if dom is ALL else alphabet(dom)
        hist = [r.choice(al) for _ in range(r.randint(3, maxl))]
        d = ctx.guard("random", hist, run_history, ctx, hist, ALL, "random")
        ctx.case("random", hist, d)
        if Inv.broken:
            drain_invariant(ctx, "random", hist)
    # --- constructor
    for i in ctx.mine(ctx.n(3000, 60000)):
        r = ctx.rng("ctor", i)
        pairs = [[r.choice(ALL), r.choice(ALL)] for _ in range(r.randint(0, 5))]
        ctx.guard("ctor", pairs, run_ctor, ctx, pairs)
        ctx.case("ctor", pairs, len({p[0] for p in pairs}) >= 2)
    drain_invariant(ctx, "final", None)


def replay(ctx, rec):
    _arm_icontract()
    st, case = rec.get("stratum"), rec.get("case")
    if st == "ctor":
        run_ctor(ctx, case)
    else:
        run_history(ctx, case, ALL, st or "random")
    drain_invariant(ctx, st, case)
