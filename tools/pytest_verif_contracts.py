"""pytest plugin (-p pytest_verif_contracts): runs the repository's own tests with two runtime
contracts armed on the real classes, patched in place after import:
  * BiMap: after every mutator, `bck` is the exact inverse of `fwd`;
  * Hugr:  after every public mutator, the structural store invariant of vf/oracles/store.py.
Conditions record and never raise; the result is written to $VERIF_CONTRACT_LOG at session end."""
import functools
import json
import os

REC = {"bimap_evals": 0, "store_evals": 0, "violations": []}
DEPTH = {}


def _wrap(cls, name, after):
    """check only when the outermost wrapped call on this class returns: a mutator that calls
    another one (delete_node -> delete_link) is mid-update in between (not a quiescent point)"""
    orig = getattr(cls, name)

    @functools.wraps(orig)
    def wrapper(self, *a, **k):
        DEPTH[cls] = DEPTH.get(cls, 0) + 1
        ok = False
        try:
            r = orig(self, *a, **k)
            ok = True
            return r
        finally:
            DEPTH[cls] -= 1
            if ok and DEPTH[cls] == 0:
                try:
                    after(self, name)
                except Exception as e:  # noqa: BLE001
                    REC["violations"].append({"contract": "monitor-error", "where": name, "detail": repr(e)[:200]})

    setattr(cls, name, wrapper)


def pytest_configure(config):
    from hugr.hugr.base import Hugr
    from hugr.utils import BiMap
    from vf.oracles import store

    def bimap_after(self, name):
        REC["bimap_evals"] += 1
        if self.bck != {v: k for k, v in self.fwd.items()} or len(self.fwd) != len(self.bck):
            REC["violations"].append({"contract": "BiMap", "where": name,
                                      "test": os.environ.get("PYTEST_CURRENT_TEST", ""),
                                      "detail": f"fwd={self.fwd!r} bck={self.bck!r}"[:300]})

    def store_after(self, name):
        REC["store_evals"] += 1
        store.invariant(self, lambda q, exp, obs: REC["violations"].append(
            {"contract": "Store", "where": f"{name}:{q}", "test": os.environ.get("PYTEST_CURRENT_TEST", ""),
             "detail": f"expected {exp!r} observed {obs!r}"[:300]}))

    for m in ("insert_left", "delete_left", "delete_right"):
        if hasattr(BiMap, m):
            _wrap(BiMap, m, bimap_after)
    for m in ("add_node", "add_link", "delete_node", "delete_link", "insert_hugr"):
        if hasattr(Hugr, m):
            _wrap(Hugr, m, store_after)


def pytest_sessionfinish(session, exitstatus):
    p = os.environ.get("VERIF_CONTRACT_LOG")
    if p:
        with open(p, "w") as f:
            json.dump(REC, f)
