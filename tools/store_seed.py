#!/usr/bin/env python3
"""tools/store_seed.py <srcdir> <name e.g. C19-12> <origin> <needs_to_manifest> <result> [--missed "how closed"]
Copies a confirmed seeded change (patch.diff, demo.py, notes.md) into seeded/<name>/ with its meta.json."""
import json
import pathlib
import shutil
import sys

HERE = pathlib.Path(__file__).resolve().parent.parent
src, name, origin, needs, result = sys.argv[1:6]
missed = sys.argv[7] if len(sys.argv) > 7 and sys.argv[6] == "--missed" else None
prop = name.split("-")[0]
dst = HERE / "seeded" / name
dst.mkdir(parents=True, exist_ok=True)
for f in ("patch.diff", "demo.py", "notes.md"):
    if (pathlib.Path(src) / f).exists():
        shutil.copy(pathlib.Path(src) / f, dst / f)
meta = {
    "property": prop,
    "origin": origin,
    "needs_to_manifest": needs,
    "confirmed": {
        "patch applies to /repo HEAD": True,
        "baseline 180/180 with patch": True,
        "demo exit 0 on unmodified tree": True,
        "demo exit 1 with patch": True,
        "how": f"tools/seeded_eval.sh seeded/{name} {prop}",
    },
    "caught_by": [f"./check {prop} --tier quick"],
    "result": result,
    "initially_missed": missed is not None,
}
if missed:
    meta["closed_by"] = missed
(dst / "meta.json").write_text(json.dumps(meta, indent=1) + "\n")
print("stored", dst)
