#!/usr/bin/env python3
"""tools/mkround.py <round k> <Cxx>... : prepare one scratch worktree of /repo and one prompt file per property for a
round of independently seeded changes.  The prompt holds the property's text, what earlier changes needed in order to
manifest (so that the author picks something else) and the working rules -- nothing else from /verif.
Worktrees: /tmp/seedwt/<Cxx>-<k>; prompt: /tmp/seedwt/<Cxx>-<k>.prompt.txt"""
import glob
import json
import pathlib
import subprocess
import sys

HERE = pathlib.Path(__file__).resolve().parent.parent
k = sys.argv[1]
extra = ""
ids = []
for a in sys.argv[2:]:
    if a.startswith("--hint="):
        extra = a[len("--hint="):]
    else:
        ids.append(a)
props = {}
for line in open(HERE / "properties.jsonl"):
    d = json.loads(line)
    props[d["id"]] = d
base = pathlib.Path("/tmp/seedwt")
base.mkdir(exist_ok=True)
for pid in ids:
    name = f"{pid}-{k}"
    wt = base / name
    if not wt.exists():
        subprocess.run(["git", "-C", "/repo", "worktree", "add", "--detach", str(wt), "HEAD"], check=True,
                       stdout=subprocess.DEVNULL, stderr=subprocess.DEVNULL)
    earlier = []
    for f in sorted(glob.glob(str(HERE / "seeded" / f"{pid}*" / "meta.json"))):
        earlier.append("- " + json.load(open(f))["needs_to_manifest"])
    p = props[pid]
    anchors = [f for f in (p.get("anchors") or {}).get("files", []) if f.startswith("hugr-py/")]
    quant = (p.get("quantifier") or {}).get("text", "")
    text = f"""You are helping to evaluate a verification harness for the Python package hugr-py (CQCL/hugr).  You get one semantic
property of that package and a scratch git worktree of the repository.  Your job: write ONE realistic change to the
package (hugr-py/src/hugr/**) that BREAKS the property below while (a) the package still imports and (b) the
repository's existing test suite still passes, plus a small demonstration program.

PROPERTY ({pid}):
{p['title']}.
{p['statement']}
It is meant to hold for: {quant}

Files the property is anchored in (hints only): {', '.join(anchors)}

Your worktree: {wt}   (work ONLY there; never touch /repo or /verif, and do not read anything under /verif)
How to import the package:  PYTHONPATH={wt}/hugr-py/src /venv/bin/python -B your_script.py
    (hugr is not installed in /venv; the native module hugr._hugr is absent, so never str()/print hugr.model objects -- use repr)
Existing test suite (must still pass with your change; 180 tests pass, 39 tests fail with AND without any change because
the `hugr` validator binary is missing -- ignore those 39, but the set of passing tests must not shrink):
    cd {wt} && /venv/bin/python -m pytest -ra -q -p no:cacheprovider --timeout=900 --continue-on-collection-errors --ignore=SEED 2>&1 | tail -5
    (compare the pass / fail counts before and after your change: 180 passed before)

What kind of change: the sort of bug a maintainer could plausibly introduce in a refactoring or "small improvement"
(an off-by-one, a wrong default, a lost field, a cache, a short-cut for a common case, an `or` for an `and`, two
cooperating sites that each look fine alone ...).  It must need something SPECIFIC to manifest -- an unusual input, an
option combination, a multi-step sequence of operations, re-used objects, state carried across calls, a rarely used
entry point -- and must NOT be exposed at once by ordinary use.  It must break the property as STATED (read it
clause by clause and say which clause breaks), not merely change behaviour the property is silent about.  Do not
touch tests, do not add environment-variable switches or randomness, keep the diff small (typically 1-15 lines).

Earlier changes for this property needed the following in order to manifest.  Pick a DIFFERENT mechanism, a different
entry point / operation kind / optional parameter / clause of the property than all of these:
{chr(10).join(earlier) if earlier else '- (none yet)'}
{extra}

Deliverables, all in {wt}/SEED/ :
  patch.diff   output of `git -C {wt} diff -- hugr-py/src` (paths relative to the repository root, applies with `git apply` / `patch -p1`)
  demo.py      a self-contained script using only the public API of hugr (and the standard library) that exits 0 on the
               UNCHANGED tree and exits 1 (printing what went wrong) on the changed tree; it is run as
               `PYTHONPATH=<tree>/hugr-py/src /venv/bin/python -B demo.py` from another directory.  It should check the
               property's clause directly (what a user relying on the property would observe).
  notes.md     5-15 lines: which clause breaks, what exactly is needed to manifest it, why the existing tests do not see it.
Before you finish: verify demo.py exits 0 WITHOUT your change and 1 with it applied, and that the test suite still shows
180 passed with it applied.  Do NOT use `git stash` (the stash is shared by all worktrees of the repository and other
people work in sibling worktrees): take your change out and put it back with
`git -C {wt} diff -- hugr-py/src > /tmp/{name}.p && git -C {wt} apply -R /tmp/{name}.p` ... `git -C {wt} apply /tmp/{name}.p`.
Leave the change applied in the worktree.
Reply with a 3-line summary (mechanism, what it needs to manifest, test-suite result).
"""
    (base / f"{name}.prompt.txt").write_text(text)
    print(name, wt)
