#!/usr/bin/env python3
"""tools/mkmut.py <Cxx/name> <repo-relative file> <old> <new>  -> writes tools/mutants/Cxx/name.diff
(unified diff against /repo's working tree, produced with difflib)."""
import difflib, pathlib, sys
name, rel, old, new = sys.argv[1:5]
src = pathlib.Path("/repo") / rel
s = src.read_text()
assert s.count(old) == 1, f"'old' occurs {s.count(old)} times"
t = s.replace(old, new)
d = difflib.unified_diff(s.splitlines(True), t.splitlines(True), f"a/{rel}", f"b/{rel}")
out = pathlib.Path(__file__).parent / "mutants" / (name + ".diff")
out.parent.mkdir(parents=True, exist_ok=True)
out.write_text("".join(d))
print(out)
