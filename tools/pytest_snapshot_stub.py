"""Supplies the `snapshot` fixture the repository's tests expect from syrupy (not installed here):
an object that compares equal to everything (snapshots are about DOT text, not about validity)."""
import pytest


class _AnySnapshot:
    def __eq__(self, other):
        return True

    def __ne__(self, other):
        return False


@pytest.fixture
def snapshot():
    return _AnySnapshot()
