#!/bin/bash
# Development-time tool (not a registered check):
#   tools/mutant_run.sh <patch.diff> [--tests] <Cxx> [<Cyy> ...]
# Copies /repo (without .git) to a scratch dir, applies the patch, optionally runs the
# baseline test-suite there, runs the given quick checks against it with VERIF_REPO_ROOT,
# prints one line per check, removes the scratch dir.
set -u
patch="$(realpath "$1")"; shift
tests=0; tier=quick
while [[ "${1:-}" == --* ]]; do
  case "$1" in --tests) tests=1;; --thorough) tier=thorough;; esac; shift
done
here="$(cd "$(dirname "$0")/.." && pwd)"
scratch="$(mktemp -d /var/tmp/verif-scratch-XXXXXX)"
trap 'rm -rf "$scratch"' EXIT
rsync -a --exclude .git --exclude target --exclude __pycache__ /repo/ "$scratch/"
if ! (cd "$scratch" && patch -p1 -s < "$patch"); then echo "PATCH-FAILED $patch"; exit 3; fi
if [ $tests = 1 ]; then
  "$here/tools/baseline.py" "$scratch" | head -5
fi
rc_all=0
for c in "$@"; do
  out="$(cd "$here" && VERIF_REPO_ROOT="$scratch" VERIF_EVIDENCE_DIR="$scratch/.evidence" ./check "$c" --tier $tier 2>&1)"; rc=$?
  v="$(echo "$out" | grep -c '^VIOLATION')"
  echo "$(basename "$(dirname "$patch")")/$(basename "$patch") $c rc=$rc violations=$v $(echo "$out" | grep -m1 -E '^(VIOLATION|INCONCLUSIVE|HELD)' | cut -c1-160)"
  echo "$out" | grep -E '^  (key|expected|observed)' | head -6
done
