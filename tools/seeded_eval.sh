#!/bin/bash
# tools/seeded_eval.sh <dir with patch.diff + demo.py> <Cxx> [more checks...]
# Confirms a seeded change: demo passes on /repo, patch applies to a scratch copy, baseline tests
# still pass there, demo fails there; then runs the given quick checks against the scratch copy.
dir="$(realpath "$1")"; shift
here="$(cd "$(dirname "$0")/.." && pwd)"
scratch="$(mktemp -d /var/tmp/verif-seeded-XXXXXX)"
trap 'rm -rf "$scratch"' EXIT
rsync -a --exclude .git --exclude target --exclude __pycache__ /repo/ "$scratch/"
(cd /tmp && PYTHONPATH=/repo/hugr-py/src /venv/bin/python -B "$dir/demo.py" >/dev/null 2>&1); echo "demo on unmodified tree: exit $?"
if ! (cd "$scratch" && patch -p1 -s < "$dir/patch.diff"); then echo "PATCH-FAILED"; exit 3; fi
"$here/tools/baseline.py" "$scratch" | head -4
(cd /tmp && PYTHONPATH="$scratch/hugr-py/src" /venv/bin/python -B "$dir/demo.py" > "$scratch/.demo.out" 2>&1); rc=$?; tail -2 "$scratch/.demo.out" | cut -c1-200; echo "demo on patched tree: exit $rc"
for c in "$@"; do
  out="$(cd "$here" && VERIF_REPO_ROOT="$scratch" VERIF_EVIDENCE_DIR="$scratch/.evidence" ./check "$c" 2>&1)"; rc=$?
  echo "CHECK $c rc=$rc $(echo "$out" | grep -m1 -E '^(VIOLATION|INCONCLUSIVE|HELD)' | cut -c1-170)"
  echo "$out" | grep -E '^  (key|expected|observed)' | head -3 | cut -c1-220
done
