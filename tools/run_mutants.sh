#!/bin/bash
# development helper: run every hand-written mutant (tools/mutants/<id>/*.diff) against its property's quick check
# on a scratch copy; prints one line per mutant and a summary table.
#   T = the 180 baseline tests still pass with the mutant, K = the quick check reports a violation
cd "$(dirname "$0")/.."
declare -A n k t tk
for d in tools/mutants/C*/; do
  id=$(basename $d)
  for m in $d*.diff; do
    out=$(tools/mutant_run.sh $m --tests $id 2>&1)
    tests=$(echo "$out" | grep -c "baseline: 180/180")
    rc=$(echo "$out" | grep -oE " rc=[0-9]+" | head -1 | tr -dc 0-9)
    if echo "$out" | grep -q PATCH-FAILED; then echo "$id $(basename $m) PATCH-FAILED"; continue; fi
    n[$id]=$(( ${n[$id]:-0} + 1 ))
    [ "$tests" = 1 ] && t[$id]=$(( ${t[$id]:-0} + 1 ))
    [ "$rc" = 1 ] && k[$id]=$(( ${k[$id]:-0} + 1 ))
    [ "$rc" = 1 ] && [ "$tests" = 1 ] && tk[$id]=$(( ${tk[$id]:-0} + 1 ))
    echo "$id $(basename $m .diff) tests=$([ "$tests" = 1 ] && echo pass || echo KILL) check=$([ "$rc" = 1 ] && echo VIOLATION || echo rc$rc)"
  done
done
echo
echo "| id | mutants | pass the baseline tests (T) | caught by the quick check | T and caught | T and not caught |"
echo "|---|---|---|---|---|---|"
for id in $(echo ${!n[@]} | tr ' ' '\n' | sort); do
  echo "| $id | ${n[$id]} | ${t[$id]:-0} | ${k[$id]:-0} | ${tk[$id]:-0} | $(( ${t[$id]:-0} - ${tk[$id]:-0} )) |"
done
