#!/bin/bash
# development helper: tools/sweep.sh <tier> <seed>... ; one line per (seed, check)
tier=$1; shift
cd "$(dirname "$0")/.."
for s in "$@"; do
  VERIF_SEED=$s VERIF_EVIDENCE_DIR=$(pwd)/.work/evidence-sweep tools/run_all.sh $tier | sed "s/^/seed=$s /"
done
