#!/bin/bash
# development helper: run every registered check (tier $1, default quick) and print one line each
tier=${1:-quick}
cd "$(dirname "$0")/.."
for id in $(python3 -c "import json;print(' '.join(c['property_id'] for c in json.load(open('MANIFEST.json'))['checks']))"); do
  out=$(./check $id --tier $tier 2>&1); rc=$?
  echo "$id rc=$rc $(echo "$out" | grep -E '^(HELD|VIOLATION|INCONCLUSIVE)' | head -2 | cut -c1-150 | tr '\n' ' ') known=$(echo "$out" | grep -c '^KNOWN-FINDING')"
done
