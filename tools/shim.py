import json, os, sys, pathlib, hashlib
here = pathlib.Path(__file__).resolve().parent.parent
sys.path[:0] = [str(here), str(here / ".deps")]
from vf.oracles import validator
from vf.oracles.extops import check_ext

args = sys.argv[1:]
data = sys.stdin.buffer.read()
docs = []
if args[:1] != ["validate"]:
    sys.exit(0)
try:
    if "--hugr-json" in args:
        docs = [json.loads(data)]
    else:
        assert data[:8] == b"HUGRiHJv", "bad magic"
        payload = data[10:]
        if data[9] & 1:
            import pyzstd
            payload = pyzstd.decompress(payload)
        docs = json.loads(payload)["modules"]
except Exception as e:
    print(f"shim: cannot decode input: {e}", file=sys.stderr)
    sys.exit(2)
findings = []
for d in docs:
    findings += validator.validate(d, check_ext)
log = os.environ.get("VERIF_SHIM_LOG")
if log:
    rec = {"test": os.environ.get("PYTEST_CURRENT_TEST", ""), "findings": findings[:20],
           "nodes": sum(len(d["nodes"]) for d in docs),
           "doc": docs if findings or os.environ.get("VERIF_SHIM_KEEP_DOCS") else None}
    name = hashlib.sha1(data).hexdigest()[:12]
    with open(os.path.join(log, f"{os.getpid()}-{name}.json"), "w") as f:
        json.dump(rec, f, default=repr)
if findings:
    for x in findings[:10]:
        print(f"{x['rule']} node={x['node']}: {x['detail']}", file=sys.stderr)
    sys.exit(1)
sys.exit(0)
