#!/bin/bash
# development helper: every seeded change (seeded/<id>[-k]/patch.diff) against its own property's quick check, on
# scratch copies; one line each.  Confirms that the workloads still catch all of them after later changes.
cd "$(dirname "$0")/.."
for d in seeded/*/; do
  name=$(basename $d); id=${name%%-*}
  out=$(tools/seeded_eval.sh $d $id 2>&1)
  demo=$(echo "$out" | grep -c "demo on patched tree: exit 1")
  base=$(echo "$out" | grep -c "baseline: 180/180")
  chk=$(echo "$out" | grep -E "^CHECK" | grep -oE "rc=[0-9]+" | head -1)
  key=$(echo "$out" | grep -E "^  key" | head -1 | sed 's/ kind=.*//' | cut -c1-90)
  echo "$name demo_fails=$demo baseline_ok=$base $chk $key"
done
