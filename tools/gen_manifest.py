#!/usr/bin/env python3
"""Regenerates MANIFEST.json from the table below (kept here so that the manifest stays
valid and in step with the checks that exist)."""
import json
import pathlib
import subprocess

ROOT = pathlib.Path(__file__).resolve().parent.parent

# id -> (technique, level text, level_note, design_ref)
CHECKS = {
    "C12": (
        "structural monitor on the export: shadow reader following the Rust binding's attribute table (parsed from python.rs at check time) + region / port / link-name / symbol / constant / order-hint / metadata checker against the HUGR",
        "1500 (quick) / 50000 (thorough) module-rooted builder programs (calls incl. repeated and polymorphic, constants incl. function values, "
        "order edges, nested conditionals / loops / CFGs, metadata) are exported with to_model(); the tree is read through exactly the "
        "attributes python.rs reads (and the model dataclasses are compared with that table, the constructor argument order and the RegionKind names / values the binding uses); regions "
        "must mirror the hierarchy, nodes list exactly their signature's value/control ports, two listed ports share a link name iff an "
        "edge joins them with the (1,n)/(n,1) hyperedge rule, applied function symbols must be the callee's, loaded constants must be "
        "inlined (the inlined term is compared with a table written from hugr-core's export_value; bodies of function constants are checked as regions of their own), every sibling order edge must appear as a hint with matching keys, metadata must be carried over, and each node's signature "
        "term must have as many inputs/outputs as the node lists (M-SIG).",
        "Trusted: vf/props/c12.py checker and term table, wire port tables. Signature / type terms of nodes are compared by arity only "
        "(the statement is about ports, links, symbols, hints, metadata); text/binary encodings are out of reach (native module absent).",
        "DESIGN.md §3 C12",
    ),
    "C11": (
        "metamorphic monitor: structural view before resolution + rule-computed expectation vs the view after resolve(); wire / model / derived-fact invariance; idempotence",
        "6000 (quick) / 200000 (thorough) type expressions (opaque types nested in sums, function types, polymorphic bodies, type and sequence "
        "arguments and arguments of other opaque types, over std, harness and freshly generated definitions) and 600 / 20000 loaded module "
        "HUGRs are resolved against empty, single-extension, subset, complete and definition-pruned registries. Every position must be "
        "replaced exactly when the registry defines it; the serialized form (descriptions masked), the exported model, signatures, port "
        "kinds/types and bounds must not change (also when the loaded runtime requirements were perturbed); resolving twice must equal resolving once. "
        "Planted ops include definitions whose signature is computed (no declared polymorphic signature) and ops / types whose names only resemble defined ones; the comparison counts how often it was non-vacuous.",
        "Trusted: the view/expectation functions in vf/props/c11.py; registries are built from pruned copies of the real definitions.",
        "DESIGN.md §3 C11",
    ),
    "C20": (
        "output monitor: parser for the emitted DOT subset; count / nesting / endpoint / label oracle against the HUGR's public queries; snapshot before/after; structural identity across render configurations",
        "800 (quick) / 25000 (thorough) HUGRs from builder programs (plus metadata, extra order links and mutation histories) are rendered under "
        "2-6 of the 6 (palette x qualify_op_name) configurations; the DOT text is parsed and must contain exactly one node statement per node "
        "with the op's display name and one cell per input/output port, one cluster per parent nested as the hierarchy, one edge statement per "
        "link with the right endpoints, value edges labelled str(type); the HUGR must be unchanged and the structure config-independent; "
        "a renderer object that has already drawn another HUGR must produce the source a fresh one produces; render_dot() without a configuration and the repository-test corpus are included.",
        "Trusted: the DOT subset parser (self-tested), display names taken from op.name()/op_def().name as the renderer documents. Graphviz's own parser (nop; dot on isolated node statements) reads every rendering; a layout failure of Graphviz 2.43 on a source that passes both is undecided. "
        "One open known finding on qualified names.",
        "DESIGN.md §3 C20",
    ),
    "C13": (
        "fault injection: exactly one catalogued inconsistency is injected into a well-formed generated builder program at a chosen site and depth; oracle = the documented exception class at the faulty call (or at context exit / serialization)",
        "3000 (quick) / 100000 (thorough) injected programs over 25 inconsistency kinds (foreign wires in plain and block builders, static ports "
        "used as values (also of another block, and order ports), integer wire indices, non-function callees (also LoadFunction / Call nodes), case rows differing only in type arguments, disagreeing (also through add_if/add_else) / out-of-range (too large and negative) / repeated / unbuilt cases, mismatched exit "
        "branches (branch_exit and branch(src, exit)), declared-output mismatches, polymorphic calls without or with wrong instantiation, incomplete ops and containers at "
        "serialization, untracked / out-of-range tracked indices), each kind >= 50 times at depths 0, 1 and >= 2. A run that completes and "
        "serializes, or raises another class where one is documented, is a violation (plain ValueError refusals are documented nowhere: any exception counts).",
        "Inside a basic block only 'source outside the enclosing CFG' is injected (the Block builder "
        "documents that relations inside a CFG are left to full validation); post-refusal HUGR state not judged.",
        "DESIGN.md §3 C13",
    ),
    "C15": (
        "differential: random scripts on the real TrackedDfg vs the same script replayed on a plain Dfg with a harness-side tracking model; per-step tracked-list equality; final HUGR equality",
        "5000 (quick) / 150000 (thorough) scripts over track_wire / track_wires / track_inputs / untrack_wire / add / extend / "
        "set_indexed_outputs / set_tracked_outputs with mixed integer and wire arguments (1-3 qubit ops, measure, copyable fan-out, ops whose "
        "argument position differs from the rebinding port) on circuits of width 1-6: `tracked` must equal the model after every step, "
        "IndexError must be raised exactly for untracked indices, and the resulting HUGR must equal the explicitly wired one incl. metadata. "
        "Whole command groups go through ONE extend(...) call, Command objects are added a second time, track_inputs is also left to its default, "
        "Node handles are used as wires, indices also stand at positions where the op has no output.",
        "Trusted: the 30-line tracking model in vf/props/c15.py. Negative indices not exercised.",
        "DESIGN.md §3 C15",
    ),
    "C08": (
        "snapshot differential: raw-index snapshots of A and B before, of A' and B after insert_hugr / insert_* ; the returned (or hierarchy-derived) mapping is checked as an isomorphism and everything else for identity",
        "1500 (quick) / 50000 (thorough) pairs (A, B) from programs and mutation histories (B with holes, index reuse, multi-linked ports, "
        "duplicate and order links, metadata; parents at every depth of A) and 400 / 12000 builder-level inserts of standalone Dfg / Cfg / "
        "Conditional / TailLoop programs: mapping domain, injectivity, freshness; per B node op, metadata, output port count, ordered children; "
        "link multisets with offsets; A's old nodes/links unchanged except the one new last child; B untouched; wires attached to inputs. "
        "The receiving HUGR has content of its own, the receiving builder may be a nested region, insert_hugr is also called with its default parent.",
        "Trusted: vf/props/c08.py snapshot. ParentBeforeChild refusals are not judged; metadata dict aliasing not judged.",
        "DESIGN.md §3 C08",
    ),
    "C17": (
        "golden + differential monitor: the repo's own generate_schema.py is executed on the working tree and its four outputs compared path by path with the four published files; acceptance agreement jsonschema(published) vs pydantic on emitted documents and coinciding-semantics mutations",
        "One execution per configuration of the real schema generator (fresh process) must reproduce the published strict/lax HUGR and testing "
        "schemas as JSON values modulo the neutral `additionalProperties: true`; model version strings must equal the file-name suffixes and no "
        "other schema file may exist. Supporting: hundreds (quick) / thousands (thorough) of emitted HUGR/package/extension documents and "
        "mutations (required-key deletion incl. every top-level key systematically, unknown keys, unknown tags, wrong containers; also documents of the testing model) must get the same verdict from jsonschema under the "
        "published file and from pydantic under the same configuration. The keys every compiled model validator reads (validation aliases included) "
        "and the tags its unions dispatch on are compared with the published definitions (what schema emission does not show); fields the validators leave "
        "unconstrained are filled with arbitrary JSON, which both sides must accept.",
        "Trusted: pydantic's schema emission describing its own validation (sampled by the differential, one open known finding about strict "
        "rebuilds); jsonschema Draft 2020-12. 'For all documents' is decided by structural identity, not by sampling.",
        "DESIGN.md §3 C17",
    ),
    "C10": (
        "round-trip + golden monitor: generated extensions vs their descriptors and their reloaded copies; byte equality of the bundled std files with the specification; helper-denotation checks against the specification's JSON",
        "1000 (quick) / 40000 (thorough) generated extensions (explicit/from-params TypeDefs with params of all kinds, mono/poly/binary OpDefs "
        "with misc JSON, typed values, semver with pre-release/build parts) are serialized, compared field by field with the descriptor, "
        "reloaded and compared again; every OpDef must report its holder as owner and carry the holder in its runtime requirements. Every file "
        "under specification/std_extensions must be byte-identical to the bundled copy, load and round-trip; each typed helper must denote a "
        "definition present in those files with fitting arguments (and, for ops, the instantiated signature). The owner / requirement "
        "invariant is re-checked for a successor extension that takes over every op definition of the generated one.",
        "Trusted: vf/gen/extensions.py, wire arg_fits/subst. runtime_reqs lists compared as sets. lower_funcs excluded (as in the property).",
        "DESIGN.md §3 C10",
    ),
    "C09": (
        "round-trip monitor + header-bit oracle + exhaustive decoder sweep",
        "Generated packages (0-4 module programs, 0-3 extensions, non-ASCII names) are encoded under JSON x zstd in {None,0,1,3,9,19,22} and "
        "decoded again through bytes and (uncompressed) string; module/extension lists must re-serialize to the same documents in order; the "
        "first ten bytes are checked against the documented layout and the payload is decoded independently. EnvelopeHeader.from_bytes and "
        "read_envelope are swept exhaustively over all 65536 (format, flags) byte pairs, all truncations and all 2040 magic corruptions; the "
        "header written for every format x compression setting is compared with the documented layout and decoded back.",
        "The payload of the MODULE formats cannot be produced here (native module absent): their header is checked, their payload only on rejection paths; flag bits 1-5 unconstrained.",
        "DESIGN.md §3 C09",
    ),
    "C05": (
        "codec differential: encode -> decode(JSON text and dict routes) -> encode fixed point, derived-fact and attribute-tree equality against opaque-mode rebuilds, encoding vs independently written wire forms, sugar == general; foreign-writer documents for the load/re-save clause",
        "Generated types/params/args (nested sums, function types, opaque and generated extension types, row variables), values (all sugar "
        "helpers, std constants, function values), all serialized op kinds with arbitrary attributes (type params, extension deltas, "
        "descriptions, type args) are encoded, decoded through both decoder routes and re-encoded; documents re-emitted by a harness-side "
        "writer that follows hugr-core's conventions (null offsets for order edges, metadata holes, respelled sums/tuples, omitted defaults) "
        "plus the repo's own live-version sample documents are schema-validated, loaded and re-saved and compared under a canonicaliser. Every "
        "type / parameter / argument / value case additionally travels through Hugr.to_json -> load_json inside a module-level op, and decoded "
        "values are compared attribute by attribute with an opaque-mode rebuild; every operation's document and every value's payload is compared "
        "with an expectation computed from the descriptor alone (symmetric encode/decode faults); loaded foreign documents are also compared in memory (links()); "
        "sugar helpers get one-shot iterables and are compared with general forms built from independently constructed fields.",
        "Trusted: vf/gen/types.py wire forms, the canonicaliser in c05_foreign.py, the published schema. CF edges are always written with explicit "
        "offsets (a null CF offset is ambiguous in the reference reader).",
        "DESIGN.md §3 C05",
    ),
    "C03": (
        "conformance monitor: jsonschema against the published strict schema + index-sanity + port-address oracle computed from Hugr.links() and the wire attributes of the emitted ops",
        "Every emitted HUGR document (programs, programs+histories with holes, order-link-heavy cases, planted attribute-rich ops), package "
        "document and generated extension document is validated against the published strict JSON schema (sampled 1/4 for HUGRs in quick), "
        "checked for root/parent/edge index sanity, and its edge multiset is compared with the one computed independently from links() and "
        "the emitted ops' signatures (value port k at k, static input after the value inputs incl. arity-changing row-polymorphic calls, order edge on the next port). "
        "Histories include inserts with the default parent; the repository-test corpus is a further stratum; a quarter of the calls get their last arguments linked after the call was made.",
        "Trusted: the published schema file, vf/oracles/wire.py port tables. One index-reuse mechanism is an open known finding. "
        "Not covered: what serde would reject although schema-valid (e.g. u8 overflow of UnitSum.size).",
        "DESIGN.md §3 C03",
    ),
    "C02": (
        "round-trip differential: JSON fixed point + observable-structure equality through the public query API, on builder programs composed with mutation histories, planted attribute-rich ops and arbitrary JSON metadata",
        "For every generated HUGR (four strata: programs, programs+mutation history, history-only with holes and index reuse, planted "
        "attribute-rich ops) load_json(to_json(h)) must succeed, re-serialize to the same JSON value path by path, and show the same encoded "
        "op, hierarchy with child order, metadata and link multiset on every port (order links included) under order-preserving renumbering; "
        "a second round trip must be a fixed point; serializing twice gives the same text and leaves the HUGR unchanged. The HUGR "
        "documents of the repository's own tests (captured through the HUGR_BIN shim) are a fifth stratum.",
        "Trusted: vf/oracles/observe.py. Histories only attach links to ports the ops have. Two index-reuse mechanisms are open known findings "
        "(known_findings.json) and are reported as KNOWN-FINDING; strata without index reuse keep full sensitivity.",
        "DESIGN.md §3 C02",
    ),
    "C04": (
        "history + executable model: lock-step sequential port-multigraph model over bounded-exhaustive and random call histories; structural invariant hook at every step",
        "Every step of every history (all 87k histories of length <= 3 over a 44-step alphabet in quick, length <= 4 in thorough; thousands of "
        "random collision-heavy histories with fan-outs, parallel links, order links, leaf deletions, index reuse and insert_hugr) is applied "
        "to the real Hugr and to an 80-line model; after each step every public query (iteration, lookup, parent/children, links(), linked_ports "
        "from both ends, has_link on present and absent pairs, link and order-link listings, port counts, metadata, the result of delete_node, handle stability) is compared and the internal shape invariant is walked; the "
        "same invariant runs as a contract around every store call of generated builder programs and of the repo's own tests.",
        "Trusted: vf/oracles/store.py model. Non-leaf deletion, empty per-port listing entries, num_incoming/num_outgoing and link order are outside the comparison.",
        "DESIGN.md §3 C04",
    ),
    "C01": (
        "reference-model monitor on outputs: generated well-formed builder programs (and the repo's own builder tests via a HUGR_BIN shim) are run against the real builders and every serialized HUGR is checked by an independent JSON-level re-implementation of the validator rules",
        "1500 (quick) / 40000 (thorough) type-directed, linearity-respecting builder programs over all six root kinds, nested to depth 3/5, "
        "covering Ext/Dom/static/order edges, partially used multi-output ops, polymorphic and row-polymorphic calls, conditionals, tail "
        "loops, five CFG shapes and every insert_* mode, plus TrackedDfg circuits (tracked indices mixed with explicit wires), are interpreted against the real builders; each emitted document is validated "
        "against 21 rule families transcribed from hugr-core's validate.rs. A negative self-test proves every rule can fire. Held = no "
        "rule violated on any observed program.",
        "Trusted base: vf/oracles/validator.py + vf/oracles/wire.py (the `hugr validate` binary cannot be built offline), the program "
        "generator's well-formedness by construction. Not covered: runtime_reqs inference, user-defined AsExtOp classes.",
        "DESIGN.md §3 C01",
    ),
    "C06": (
        "spec-table oracle evaluated on generator parameters vs what the real op objects report",
        "For 16000 (quick) / 600000 (thorough) generated op instances of 23 kinds (all rows incl. empty, linear, nested; row-polymorphic "
        "signatures with arity-changing instantiations) the outer/inner signature rows, every port kind and type (value, static and order "
        "ports), num_out, nth_inputs/nth_outputs and Hugr.port_type are compared with a table computed from the descriptors alone. Two cross-cutting strata: "
        "every port of every node of generated builder programs (kind from the op vs type of the linked peer; Hugr.port_type on every out port), DFG / container delta and outer == inner rows, and one partial-op instance "
        "(MakeTuple / UnpackTuple / Noop / CallIndirect) re-used through the builders with several rows (facts must follow the current typing; "
        "CallIndirect also added with only a prefix of its arguments).",
        "Trusted: the spec table in vf/props/c06.py and vf/gen/types.py wire forms. runtime_reqs not compared; out-of-range offsets not queried.",
        "DESIGN.md §3 C06",
    ),
    "C16": (
        "exhaustive differential against range(n) semantics + output-count oracle from generator parameters on builder-returned handles",
        "All ints and positive-step slices in a box around [-n, n] for n = 0..6 (quick) / 0..9 (thorough) are applied to real handles and "
        "compared with Python range(n) semantics under the two stated licences; thousands of builder scenarios (every add/insert/call/load "
        "API and every container builder, incl. row-polymorphic calls) check that the returned handle enumerates exactly the outputs the "
        "generator's parameters dictate, including handles created on recycled node indices, op objects used a second time, and the add_if / add_else route.",
        "Trusted: the expected output counts written in the scenario table. Negative indexing on unknown-count handles not asserted.",
        "DESIGN.md §3 C16",
    ),
    "C14": (
        "reference-function monitor: JSON-level inhabits(value,type) from constant.rs + independent type_of on generator descriptors",
        "Generated well-typed value expressions (general sums and every sugar helper, std int/float/string/array/list/static-array "
        "constants, function values; nesting to depth 3/5) are built with the real constructors; the serialized form must inhabit the "
        "reported type under a JSON-level re-implementation of the Rust rules, the reported type must equal the descriptor's, helper tags "
        "must be the documented ones, collections must embed each element completely, and Const/LoadConst from DfBase.load must agree (also for "
        "every load in generated builder programs); helper constructors are also handed one-shot iterables; values decoded from their own serialization are judged again; "
        "function values rooted at a TailLoop must report the body's signature.",
        "Trusted: vf/oracles/wire.py (inhabits, canonical types), vf/gen/values.py type_of. A negative self-test of the oracle runs first.",
        "DESIGN.md §3 C14",
    ),
    "C19": (
        "reference-model monitor (replay entries in order) on generated shots / multi-shot results",
        "Every generated shot and multi-shot result (interleaved indexed/whole writes, bools, non-bits, look-alike tags, "
        "all strict-flag combinations, nested lists for collation) is run through the real QsysShot/QsysResult and the outcome "
        "(value or ValueError) is compared with a 40-line replay model of the documented convention; one result object is also asked "
        "several times with changing options and must answer like a fresh one; shot / result objects are re-used after further appends; tags may be non-ASCII.",
        "Trusted: the replay model. Not covered: tags ending in newline, floats 0.0/1.0, key order of result dicts, to_pytket.",
        "DESIGN.md §3 C19",
    ),
    "C07": (
        "reference-function monitor: independent recursive bound on generator descriptors vs type_bound() and the emitted wire bound",
        "Tens of thousands of generated type descriptors (nested sums, function types, opaque/extension types with generated "
        "TypeDefs incl. arbitrary from-params index lists, std containers) are built with the real constructors; reported bound, "
        "every bound field in the serialized form, Array/List bounds and StaticArray acceptance are compared with a bound "
        "computed from the descriptor alone; one extension-type object whose arguments are replaced between two uses must report and "
        "write the bound of its current arguments, also after a resolution against an empty registry; the std definitions as loaded from JSON and every "
        "generated definition re-loaded from its extension's JSON are instantiated as plain extension types.",
        "Trusted: ref_bound/wire_ty in vf/gen/types.py. Only TypeTypeArg at from-params positions; depth <= 3/5.",
        "DESIGN.md §3 C07",
    ),
    "C18": (
        "lock-step reference-model monitor (dict) over exhaustive+random call histories; icontract class invariant on the real BiMap",
        "Every query of the real BiMap is compared with a dict model after every step of each history: "
        "exhaustively for all histories up to length 3 (quick) / 4 (thorough) over a 3x3 domain of falsy keys, "
        "and on tens of thousands of random histories over a 5x5 domain; an icontract invariant (bck == inverse(fwd)) "
        "runs after every public call; operands are fresh objects (equal, not identical) incl. big ints, tuples and strings. Held = no divergence on any observed execution.",
        "Trusted: the 20-line dict model; keys never None and never ==-equal across types; histories beyond the bounds are not explored.",
        "DESIGN.md §3 C18",
    ),
}

# strata added in the session of 2026-10-03 (third audit, rounds 17-21), appended to the level texts
ADDENDA = {
    "C01": "CFG shapes include three-way branches, a block that is its own successor and an exit on the third port; every other constant is built from one-shot iterables; output 0 of a node is handed over as the Node itself every third time; tuples for Sequence parameters. Every other tracked circuit is default-constructed and tracks its inputs afterwards; wires also as bare Wire-protocol objects. CFG shapes in which two successor ports of one block lead to the same block (twin, twin-loop, twin-exit).",
    "C02": "After all comparisons the HUGR is changed (node, self links, metadata, a link removed) and the whole comparison runs again: nothing remembered from an earlier serialization may survive. Histories are interrupted by pure queries (serialization, rendering, port queries) after every second step and at explicit probe steps (delete, serialize, re-use, delete elsewhere). Sparse-survivor histories (most nodes deleted, nothing re-used); opaque spellings of prelude types.",
    "C03": "The port-address oracle also runs on HUGRs with control-flow edges; argument positions and the function port of calls are checked against what the program's statements asked for (recorded by the interpreter, not read back from the HUGR). Hand-typed operations added through the plain graph API with some of their value ports connected and order links on both sides; serializations in the middle of histories. Sparse-survivor histories; a node created with more output ports than its operation has. A zero-output operation planted with surplus output ports ahead of an order edge (the order edge sits at offset 0). Deletion histories beside a function-valued constant (nested serialization).",
    "C04": "Further queries: nodes(), keys / values / items, num_ports, root_op, containment, lookups of absent and freed indices; listings add up duplicates; store calls receive the node in five spellings (returned handle, bare Node, iteration handle, children() handle, handle with other extras); an index handed out while live is reported as a finding. The node also as a bare ToNode implementation; parents must come back as Nodes. Histories put several links on one input port of a node just before deleting it.",
    "C05": "Definition-backed extension ops have an independent expected document (incl. the definition's description); negative integers; foreign documents with metadata arrays that cover only the leading nodes, [] or no key. Definition-backed ops over monomorphic definitions (own signature with further requirements, or none); names of custom operations and declarations from pools (qualified with their own extension, padded, dotted). Function values encoded, their body changed in place, encoded again. User data (metadata, custom-constant payloads) with keys that spell the format's own field names. Loaded foreign HUGRs are annotated after they were judged (nothing may leak into documents loaded later).",
    "C06": "Sugar sum type objects as the sum of Conditional / DataflowBlock / Tag; port queries on recycled indices and after every step of mutation histories whose operations have rotating port types. Callees without type parameters given no instantiation, the body spelled again, or a foreign function type. Scenario declared-poly: function port, call ports and loaded type of a polymorphic function whose outputs are declared up front. CallIndirect over callees whose function type carries runtime requirements: the prepended type is the whole function type. Tail loops whose body outputs are set two or three times with other Break rows.",
    "C07": "Row variables inside rows; polymorphic function types. A linear argument at a named, copyable-declared position (refused, or the type is Any); the same argument at two positions. From-params index lists that also name non-type positions (skipped, the later type positions still count).",
    "C08": "Port counts of A's old nodes; B with re-used indices inserted into A with several freed indices. Receiving builders that are basic blocks with dominator wires or nested regions with non-local wires; the parent given as a bare ToNode implementation.",
    "C09": "Every round trip is followed by failing decodes (cut in header / payload, flipped byte, other magic) after each of which the valid envelope must decode again; malformed text input; the default configuration's header judged against its payload; one configuration object re-used for level after level; the package changed after encoding and encoded again. to_str under a compressing configuration (refused, or a faithful envelope); two different extensions of one name in a package. Modules carry a node naming a shipped operation with its own description and signature.",
    "C10": "Every other generated extension is serialized after each single addition while it is being built. Extensions that require themselves; operations defined again under a name already held; loaded std extensions and the module-level objects against the source documents field by field; register_op. A loaded copy annotated in place leaves other operations and other loaded copies as they were. Operation signatures with a requirement named twice.",
    "C11": "Every other type expression is resolved a second time against another registry (opaque types inside definition-backed types); the description licence is judged exactly (original or the definition's). Function types whose output row equals the input row without being spelled the same. Registry-defined operations with phantom type arguments (nothing to resolve in the signature). Known gap: opaque types that do not fit the definition held by the registry are not generated (seeded change C11-32 is not caught).",
    "C12": "The kind of every exported node (containers keep their kind, custom operations are named after extension and operation, tags carry their tag); Package.to_model; the HUGR changed after export and exported again. Metadata records replaced as a whole before the second export. Bodies of function-valued constants changed (metadata, a node added) between two exports of the same module. Metadata keys in the model's own namespaces (core., compat.).",
    "C13": "Refused wires are offered through six entry points; five more kinds of incomplete operations incl. add_if without add_else; all three serialization routes. Also insert_nested / insert_cfg / insert_tail_loop as entry points (nine in all, chosen by a proper hash). Output rows that differ only in type arguments are also offered to polymorphic definitions, declared before or after. add_case asked again while the first builder is still open.",
    "C14": "Negative integers, more unit-sum sizes, sugar objects as declared sum types, bool_value, default width; one Const node whose value is exchanged after its type was asked for (const-replaced). Equal sub-values as one object. Integers at and just beyond the edges of every width (inhabit, or refused). A value obtained from a helper is edited in place before the helper is called again (helpers share nothing with what they handed out). bool_value of true / false things that are not the bool singletons.",
    "C15": "Indices naming freed holes, untracked indices in set_indexed_outputs, one copyable index at two positions, the explicit side through add(Command), track_wires given lists / tuples / generators. Every index given up before set_tracked_outputs (a root left incomplete on one side only is a difference). Indices given as IntEnum members and bools (ints by subclass). track_wires given a node handle (one index per output). Explicit wires that merely implement the Wire protocol.",
    "C16": "Explicit count differing from the op's own; count-less handle on a recycled index; CFG / if-else scenarios with other output counts, both exit entry points; an output port of an open container linked and unlinked before its outputs are set. Counts given together with metadata; inserted builders whose root carries metadata.",
    "C17": "Mutation operator retype: a value of another JSON type at any position (position classes visited least-mutated-first, replacement kinds in turn; scalar-for-scalar swaps judged under the strict configuration only). Position classes of retype follow the models; a zoo type with every kind of type argument; monitor default-agreement: for every published property default the key is removed from corpus documents and what the decoder fills in is compared with the published default. Extension documents with fixed lowerings. Strings padded with white space (refused by both formalisms where the schema constrains the string, taken as they are elsewhere). Retype also transplants a well-formed object of another model from elsewhere in the same document. Integers replaced by fractional numbers. Two open findings are reported as KNOWN-FINDING (known_findings.json): stale nested validators after the strict rebuild, and a type definition's bound without its tag (accepted by the schema, refused by the decoder), each classified by mechanism.",
    "C18": "Blind histories (nothing read between mutators, before the invariant walk is attached); the inherited mapping surface; histories starting from constructed maps; constructor from equal-not-identical objects, proxies, UserDict, keyword. Constructor arguments also defaultdict / OrderedDict.",
    "C19": "as_dict; constructor iterables and caller-side edits; defaults of register_counts; zero-shot results; a result changed and asked again; key shape of collated counts; collated shots without truncation; more tag shapes. Equal list values of a shot as one object. Float twins of a shot: a multi-shot call is refused exactly when some shot alone is refused. Tuples among the values that are not bits.",
    "C20": "Every rendering is read by Graphviz itself (nop: graph syntax; dot on the node statements alone: HTML-like labels) and a sample is stored with store_dot / DotRenderer.store; cluster count; re-render after the HUGR changed; smallest shapes; HTML-special characters in names and metadata. Hugr.render_dot asked twice with a count-preserving change in between (metadata edited, two links' targets exchanged). Two user-written palettes (pairwise equal colours, a single colour).",
}
for _k, _v in ADDENDA.items():
    _t = CHECKS[_k]
    CHECKS[_k] = (_t[0], _t[1] + " " + _v, _t[2], _t[3])

PENDING_REASON = "check not built yet in this session (see DESIGN.md §8 build order); no claim made"


def main():
    props = [json.loads(l) for l in open(ROOT / "properties.jsonl")]
    checks = []
    for p in props:
        pid = p["id"]
        if pid not in CHECKS:
            continue
        tech, text, note, ref = CHECKS[pid]
        checks.append({
            "property_id": pid,
            "quick_cmd": f"./check {pid} --tier quick",
            "thorough_cmd": f"./check {pid} --tier thorough",
            "evidence_file": f"evidence/{pid}.json",
            "replay_cmd_template": f"./check {pid} --replay {{path}}",
            "engine": "vf",
            "level_claimed": {"category": "exploration", "text": text, "design_ref": ref},
            "level_note": note,
            "technique": tech,
        })
    na_extra = json.loads((ROOT / "tools" / "not_applicable.json").read_text()) \
        if (ROOT / "tools" / "not_applicable.json").exists() else {}
    na = [{"property_id": p["id"], "reason": na_extra.get(p["id"], PENDING_REASON)}
          for p in props if p["id"] not in CHECKS]
    try:
        commits = subprocess.run(
            ["git", "-C", "/repo", "log", "--format=%H %s", "--grep=^hook:"],
            capture_output=True, text=True).stdout.strip().splitlines()
    except Exception:
        commits = []
    man = {
        "version": 1,
        "setup_cmd": "./setup.sh",
        "hooks": {
            "guard": "HUGR_PY_VERIF",
            "enable": "no source hooks: monitors are attached from outside the package after import "
                      "(in-place class patching, icontract, sys.monitoring); workers export HUGR_PY_VERIF=1 "
                      "and import hugr from /repo/hugr-py/src with a fresh pycache prefix",
            "baseline_off_cmd": "cd /repo && /venv/bin/python -m pytest -ra -q -p no:cacheprovider --timeout=900 --continue-on-collection-errors",
            "source_commits": [c.split()[0] for c in commits],
            "add_only": True,
        },
        "engines": [{
            "name": "vf",
            "path": "vf/",
            "serves_properties": [c["property_id"] for c in checks],
            "kind_free_text": "runtime monitoring harness: seeded workload generators drive the real hugr package "
                              "from /repo's working tree in sharded worker processes; reference-model, round-trip, "
                              "invariant and contract monitors observe executions; three-valued verdicts",
        }],
        "checks": checks,
        "not_applicable": na,
        "notes": "All checks: ./check <ID> [--tier quick|thorough] [--replay FILE]; VERIF_SEED honoured; exit 0 held / "
                 "1 violation / 2 inconclusive. Known findings: known_findings.json. See DESIGN.md.",
    }
    (ROOT / "MANIFEST.json").write_text(json.dumps(man, indent=1) + "\n")
    import sys
    sys.path.append(str(ROOT / ".deps"))
    try:
        import jsonschema
        jsonschema.Draft202012Validator(json.load(open("/root/.vp/MANIFEST.schema.json"))).validate(man)
        print(f"MANIFEST.json valid: {len(checks)} checks, {len(na)} not_applicable")
    except ImportError:
        print("written (jsonschema unavailable)")


if __name__ == "__main__":
    main()
