#!/usr/bin/env python3
"""Run the repository's baseline suite in <root> (default /repo) with hooks OFF and
compare with /root/.vp/BASELINE.json stable_pass. Exit 0 iff every stable test passes."""
import json, os, subprocess, sys, tempfile, xml.etree.ElementTree as ET

root = sys.argv[1] if len(sys.argv) > 1 else "/repo"
base = json.load(open("/root/.vp/BASELINE.json"))
want = set(base["stable_pass"])
with tempfile.TemporaryDirectory(dir="/var/tmp") as td:
    xml = os.path.join(td, "j.xml")
    env = {k: v for k, v in os.environ.items() if k not in ("HUGR_PY_VERIF", "PYTHONPATH", "HUGR_BIN")}
    subprocess.run(["/venv/bin/python", "-m", "pytest", "-ra", "-q", "-p", "no:cacheprovider",
                    "--timeout=900", "--continue-on-collection-errors", f"--junitxml={xml}"],
                   cwd=root, env=env, stdout=subprocess.DEVNULL, stderr=subprocess.DEVNULL)
    passed = set()
    for tc in ET.parse(xml).getroot().iter("testcase"):
        if any(c.tag in ("failure", "error", "skipped") for c in tc):
            continue
        passed.add(f"{tc.get('classname')}::{tc.get('name')}")
missing = sorted(want - passed)
print(f"baseline: {len(want & passed)}/{len(want)} stable tests pass in {root}")
for m in missing[:20]:
    print("  MISSING", m)
sys.exit(1 if missing else 0)
