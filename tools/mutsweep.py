#!/usr/bin/env python3
"""Systematic mutation sweep (development tool, not a registered check).

  tools/mutsweep.py gen  [--per-file N] [--seed S]     -> .work/mutsweep/mutants.jsonl
  tools/mutsweep.py run  [--jobs J] [--limit K]        -> .work/mutsweep/results.jsonl (+ table on stdout)
  tools/mutsweep.py report

Single-token mutants (comparison / boolean / arithmetic operator swaps, dropped `not`, integer
constants +-1, deleted simple statements) are sampled from the Python files the properties are anchored
in.  Phase A (parallel): the mutant must import and leave the 180 baseline tests passing.  Phase B
(sequential, every check uses all cores): the quick checks of the properties anchored in the mutated
file run against a scratch copy until one reports a violation.  Survivors are listed for triage: each
is either behaviour-preserving / outside every property, or a workload gap."""
import argparse
import ast
import json
import os
import pathlib
import random
import shutil
import subprocess
import sys
from concurrent.futures import ThreadPoolExecutor

HERE = pathlib.Path(__file__).resolve().parent.parent
WORK = HERE / ".work" / "mutsweep"
LIVE = pathlib.Path("/repo")
# everything (mutant generation, scratch copies, restoring files) works on ONE snapshot of /repo taken when `run`
# starts, so that commits to /repo during a long sweep cannot disturb it
REPO = pathlib.Path("/var/tmp/verif-mutsweep-base")


def snapshot():
    if REPO.exists():
        shutil.rmtree(REPO)
    subprocess.run(["rsync", "-a", "--exclude", ".git", "--exclude", "target", "--exclude", "__pycache__",
                    str(LIVE) + "/", str(REPO) + "/"], check=True)

CMP = {ast.Lt: ("<", "<="), ast.LtE: ("<=", "<"), ast.Gt: (">", ">="), ast.GtE: (">=", ">"),
       ast.Eq: ("==", "!="), ast.NotEq: ("!=", "=="), ast.Is: ("is", "is not"), ast.IsNot: ("is not", "is"),
       ast.In: ("in", "not in"), ast.NotIn: ("not in", "in")}
BIN = {ast.Add: ("+", "-"), ast.Sub: ("-", "+")}
AUG = {ast.Add: ("+=", "-="), ast.Sub: ("-=", "+="), ast.BitOr: ("|=", "&="), ast.BitAnd: ("&=", "|=")}


def file_map():
    m = {}
    for l in open(HERE / "properties.jsonl"):
        p = json.loads(l)
        for f in p["anchors"]["files"]:
            if f.endswith(".py") and f.startswith("hugr-py/src/"):
                m.setdefault(f, []).append(p["id"])
    return m


def _between(line: bytes, a: int, b: int, old: str, new: str):
    seg = line[a:b].decode()
    if seg.count(old) != 1 and not (old in ("<", ">", "is", "in") and seg.strip() == old):
        return None
    if seg.strip() != old:
        return None
    return line[:a] + seg.replace(old, new, 1).encode() + line[b:]


def mutants_of(rel):
    src = (REPO / rel).read_text()
    lines = src.encode().split(b"\n")
    tree = ast.parse(src)
    out = []
    doc_nodes = set()
    for n in ast.walk(tree):
        if isinstance(n, (ast.FunctionDef, ast.ClassDef, ast.Module, ast.AsyncFunctionDef)):
            b = n.body
            if b and isinstance(b[0], ast.Expr) and isinstance(getattr(b[0], "value", None), ast.Constant) \
                    and isinstance(b[0].value.value, str):
                doc_nodes.add(id(b[0]))
    skip = set()  # annotation subtrees
    for n in ast.walk(tree):
        for fld in ("annotation", "returns"):
            a = getattr(n, fld, None)
            if a is not None:
                for x in ast.walk(a):
                    skip.add(id(x))
        if isinstance(n, ast.If) and "TYPE_CHECKING" in ast.unparse(n.test):
            for x in ast.walk(n):
                skip.add(id(x))

    def add(op, lineno, newline):
        old = lines[lineno - 1]
        if newline is None or newline == old:
            return
        out.append({"file": rel, "line": lineno, "op": op, "old": old.decode(), "new": newline.decode()})

    for n in ast.walk(tree):
        if id(n) in skip:
            continue
        if isinstance(n, ast.Compare) and len(n.ops) == 1 and type(n.ops[0]) in CMP:
            l, r = n.left, n.comparators[0]
            if l.end_lineno == r.lineno:
                o, w = CMP[type(n.ops[0])]
                add(f"cmp {o}->{w}", r.lineno, _between(lines[r.lineno - 1], l.end_col_offset, r.col_offset, o, w))
        elif isinstance(n, ast.BoolOp):
            o, w = ("and", "or") if isinstance(n.op, ast.And) else ("or", "and")
            l, r = n.values[0], n.values[1]
            if l.end_lineno == r.lineno:
                add(f"bool {o}->{w}", r.lineno, _between(lines[r.lineno - 1], l.end_col_offset, r.col_offset, o, w))
        elif isinstance(n, ast.UnaryOp) and isinstance(n.op, ast.Not):
            ln = lines[n.lineno - 1]
            if ln[n.col_offset:n.col_offset + 4] == b"not ":
                add("drop not", n.lineno, ln[:n.col_offset] + ln[n.col_offset + 4:])
        elif isinstance(n, ast.BinOp) and type(n.op) in BIN:
            l, r = n.left, n.right
            if l.end_lineno == r.lineno:
                o, w = BIN[type(n.op)]
                add(f"bin {o}->{w}", r.lineno, _between(lines[r.lineno - 1], l.end_col_offset, r.col_offset, o, w))
        elif isinstance(n, ast.AugAssign) and type(n.op) in AUG:
            l, r = n.target, n.value
            if l.end_lineno == r.lineno:
                o, w = AUG[type(n.op)]
                add(f"aug {o}->{w}", r.lineno, _between(lines[r.lineno - 1], l.end_col_offset, r.col_offset, o, w))
        elif isinstance(n, ast.Constant) and type(n.value) is int and n.lineno == n.end_lineno and abs(n.value) < 100:
            ln = lines[n.lineno - 1]
            txt = ln[n.col_offset:n.end_col_offset].decode()
            if txt == str(n.value):
                for new in ({0: [1], 1: [0, 2]}.get(n.value, [n.value + 1, n.value - 1])):
                    add(f"int {n.value}->{new}", n.lineno, ln[:n.col_offset] + str(new).encode() + ln[n.end_col_offset:])
        elif isinstance(n, ast.Constant) and type(n.value) is bool and n.lineno == n.end_lineno:
            ln = lines[n.lineno - 1]
            txt = ln[n.col_offset:n.end_col_offset].decode()
            if txt in ("True", "False"):
                add(f"bool-const {txt}", n.lineno,
                    ln[:n.col_offset] + str(not n.value).encode() + ln[n.end_col_offset:])
    # statement deletion: simple one-line statements inside function bodies with other statements
    for fn in ast.walk(tree):
        if not isinstance(fn, (ast.FunctionDef, ast.For, ast.If, ast.With, ast.While)):
            continue
        body = [s for s in fn.body if id(s) not in doc_nodes]
        if len(body) < 2:
            continue
        for s in body:
            if id(s) in skip or s.lineno != s.end_lineno:
                continue
            if isinstance(s, (ast.Assign, ast.AugAssign)) or (
                    isinstance(s, ast.Expr) and isinstance(s.value, ast.Call)):
                if isinstance(s, ast.Assign) and s is body[0] and False:
                    continue
                ln = lines[s.lineno - 1]
                if isinstance(s, ast.Assign):
                    # deleting a plain local binding only produces NameErrors; keep attribute / subscript stores
                    if all(isinstance(t, ast.Name) for t in s.targets):
                        continue
                add("del stmt", s.lineno, ln[:s.col_offset] + b"pass")
    return out


def gen(args):
    if not REPO.exists():
        snapshot()
    rng = random.Random(args.seed)
    WORK.mkdir(parents=True, exist_ok=True)
    fm = file_map()
    allm = []
    for rel, props in sorted(fm.items()):
        ms = mutants_of(rel)
        rng.shuffle(ms)
        # weight by file size
        k = min(len(ms), max(args.per_file, int(len(ms) * args.frac)))
        for m in ms[:k]:
            m["props"] = props
            allm.append(m)
        print(f"{rel}: {len(ms)} candidates, {k} sampled", file=sys.stderr)
    rng.shuffle(allm)
    for i, m in enumerate(allm):
        m["id"] = i
    with open(WORK / "mutants.jsonl", "w") as f:
        for m in allm:
            f.write(json.dumps(m) + "\n")
    print(len(allm), "mutants")


def make_scratch(i):
    d = pathlib.Path(f"/var/tmp/verif-mutsweep-{i}")
    if d.exists():
        shutil.rmtree(d)
    subprocess.run(["rsync", "-a", "--exclude", ".git", "--exclude", "target", "--exclude", "__pycache__",
                    str(REPO) + "/", str(d) + "/"], check=True)
    return d


def apply(d, m):
    p = d / m["file"]
    ls = p.read_text().split("\n")
    assert ls[m["line"] - 1] == m["old"], (m, ls[m["line"] - 1])
    ls[m["line"] - 1] = m["new"]
    p.write_text("\n".join(ls))


def restore(d, m):
    shutil.copyfile(REPO / m["file"], d / m["file"])


def phase_a(slot, m):
    d = pathlib.Path(f"/var/tmp/verif-mutsweep-{slot}")
    apply(d, m)
    try:
        env = {k: v for k, v in os.environ.items() if k not in ("PYTHONPATH",)}
        r = subprocess.run(["/venv/bin/python", "-B", "-c", "import hugr, hugr.build, hugr.std.int, hugr.qsystem.result"],
                           cwd="/var/tmp", env={**env, "PYTHONPATH": str(d / "hugr-py/src")},
                           capture_output=True, timeout=120)
        if r.returncode != 0:
            return "import-fails"
        r = subprocess.run([str(HERE / "tools/baseline.py"), str(d)], capture_output=True, text=True, timeout=1800)
        return "baseline-pass" if r.returncode == 0 else "baseline-kills"
    finally:
        restore(d, m)


def run(args):
    if args.fresh or not REPO.exists() or not (WORK / "mutants.jsonl").exists():
        snapshot()
        if (WORK / "results.jsonl").exists():
            (WORK / "results.jsonl").unlink()
        gen(args)
    ms = [json.loads(l) for l in open(WORK / "mutants.jsonl")]
    if args.limit:
        ms = ms[:args.limit]
    done = {}
    resf = WORK / "results.jsonl"
    if resf.exists():
        for l in open(resf):
            r = json.loads(l)
            done[r["id"]] = r
    todo = [m for m in ms if m["id"] not in done]
    J = args.jobs
    for i in range(J):
        make_scratch(i)
    import queue
    slots = queue.Queue()
    for i in range(J):
        slots.put(i)

    def a(m):
        s = slots.get()
        try:
            return m, phase_a(s, m)
        except Exception as e:  # noqa: BLE001
            return m, f"error {e!r}"
        finally:
            slots.put(s)

    with ThreadPoolExecutor(J) as ex:
        res_a = list(ex.map(a, todo))
    surv = [m for m, r in res_a if r == "baseline-pass"]
    with open(resf, "a") as f:
        for m, r in res_a:
            if r != "baseline-pass":
                f.write(json.dumps({**m, "phase_a": r}) + "\n")
    print(f"phase A: {len(res_a)} mutants, {len(surv)} pass import + baseline", flush=True)
    d = pathlib.Path("/var/tmp/verif-mutsweep-0")
    all_ids = [json.loads(l)["id"] for l in open(HERE / "properties.jsonl")]
    for m in surv:
        apply(d, m)
        verdicts = {}
        killed = None
        try:
            order = m["props"] + ([p for p in all_ids if p not in m["props"]] if args.all_checks else [])
            for c in order:
                r = subprocess.run(["./check", c], cwd=HERE, capture_output=True, text=True, timeout=3600,
                                   env={**os.environ, "VERIF_REPO_ROOT": str(d),
                                        "VERIF_EVIDENCE_DIR": str(d / ".evidence")})
                verdicts[c] = r.returncode
                if r.returncode == 1:
                    killed = c
                    keys = [l.strip()[:160] for l in r.stdout.splitlines() if l.startswith("  key=")][:2]
                    verdicts["keys"] = keys
                    break
        finally:
            restore(d, m)
        rec = {**m, "phase_a": "baseline-pass", "killed_by": killed, "verdicts": verdicts}
        with open(resf, "a") as f:
            f.write(json.dumps(rec) + "\n")
        print(f"#{m['id']} {m['file'].split('/')[-1]}:{m['line']} [{m['op']}] -> "
              f"{'KILLED by ' + killed if killed else 'SURVIVED ' + json.dumps(verdicts)}", flush=True)
    for i in range(J):
        shutil.rmtree(f"/var/tmp/verif-mutsweep-{i}", ignore_errors=True)
    shutil.rmtree(REPO, ignore_errors=True)
    report(args)


def report(args):
    rs = [json.loads(l) for l in open(WORK / "results.jsonl")]
    from collections import Counter
    c = Counter(r["phase_a"] if r["phase_a"] != "baseline-pass" else ("killed" if r["killed_by"] else "survived")
                for r in rs)
    print(dict(c))
    for r in rs:
        if r["phase_a"] == "baseline-pass" and not r["killed_by"]:
            print(f"SURVIVOR #{r['id']} {r['file']}:{r['line']} [{r['op']}]\n    - {r['old'].strip()}\n    + {r['new'].strip()}\n    {r['verdicts']}")


if __name__ == "__main__":
    ap = argparse.ArgumentParser()
    ap.add_argument("cmd", choices=["gen", "run", "report"])
    ap.add_argument("--per-file", type=int, default=4)
    ap.add_argument("--frac", type=float, default=0.08)
    ap.add_argument("--seed", type=int, default=0)
    ap.add_argument("--jobs", type=int, default=6)
    ap.add_argument("--limit", type=int, default=0)
    ap.add_argument("--all-checks", action="store_true")
    ap.add_argument("--fresh", action="store_true", help="new snapshot of /repo, new mutant sample, forget results")
    a = ap.parse_args()
    {"gen": gen, "run": run, "report": report}[a.cmd](a)
