#!/bin/bash
# development helper: run EVERY registered quick check against EVERY seeded change (seeded/*/patch.diff)
# and print a markdown table (rows: changes, columns: checks; V = violation, . = held, I = inconclusive).
cd "$(dirname "$0")/.."
here="$(pwd)"
ids=$(python3 -c "import json;print(' '.join(c['property_id'] for c in json.load(open('MANIFEST.json'))['checks']))")
echo "| change | $(echo $ids | sed 's/ / | /g') |"
echo "|---|$(for i in $ids; do printf -- '---|'; done)"
for d in seeded/*/; do
  name=$(basename $d)
  [ -f "$d/patch.diff" ] || continue
  scratch="$(mktemp -d /var/tmp/verif-matrix-XXXXXX)"
  rsync -a --exclude .git --exclude target --exclude __pycache__ /repo/ "$scratch/"
  if ! (cd "$scratch" && patch -p1 -s < "$here/$d/patch.diff"); then echo "| $name | PATCH-FAILED |"; rm -rf "$scratch"; continue; fi
  row="| $name |"
  for c in $ids; do
    out="$(VERIF_REPO_ROOT="$scratch" VERIF_EVIDENCE_DIR="$scratch/.evidence" ./check "$c" 2>&1)"; rc=$?
    case $rc in 0) m=".";; 1) m="**V**";; *) m="I";; esac
    row="$row $m |"
  done
  echo "$row"
  rm -rf "$scratch"
done
