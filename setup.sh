#!/bin/bash
# setup_cmd: install third-party deps for the checks, offline, next to /verif (git-ignored).
set -e
cd "$(dirname "$0")"
if [ ! -f .deps/.ok ]; then
  rm -rf .deps
  PIP_NO_INDEX=1 /venv/bin/pip install --quiet --no-index --find-links /opt/veriftools/wheels \
      --target .deps jsonschema icontract deal >/dev/null 2>&1 || \
  PIP_NO_INDEX=1 /venv/bin/pip install --no-index --find-links /opt/veriftools/wheels \
      --target .deps jsonschema icontract deal
  touch .deps/.ok
fi
mkdir -p evidence replays .work
echo "setup ok"
